import SemantivaModel.Model.Trace
/-!
# C06 — every run leaves a well-formed trace, whatever node fails

`trace_wellformed`: for every lifecycle shape satisfying the decidable condition `good` and every
fault plan (any number of nodes, a failure at any node or during construction, `Exception`-class or
`BaseException`-class), the emitted stream is exactly the documented one, the original exception
reaches the caller and the driver is closed.
-/
namespace SemantivaModel.Trace

def allTrue : LifecycleShape := ⟨true, true, true, true, true, true, true, true, true, true, true⟩

theorem good_eq (sh : LifecycleShape) (h : sh.good = true) : sh = allTrue := by
  obtain ⟨a, b, c, d, e, f, g, i, j, k, l⟩ := sh
  simp only [LifecycleShape.good, Bool.and_eq_true] at h
  obtain ⟨⟨⟨⟨⟨⟨⟨⟨⟨⟨h1, h2⟩, h3⟩, h4⟩, h5⟩, h6⟩, h7⟩, h8⟩, h9⟩, h10⟩, h11⟩ := h
  subst h1 h2 h3 h4 h5 h6 h7 h8 h9 h10 h11
  rfl

/-- The loop of a good shape: successes until the first failure, then the failing SER and stop. -/
theorem loop_allTrue (ns : List (Option ExcClass)) (i : Nat) :
    loop allTrue ns i =
      match firstFailure ns i with
      | none => ((List.range' i ns.length).map (fun k => Ev.ser k true), none, ns.length)
      | some (j, c) => ((List.range' i (j - i)).map (fun k => Ev.ser k true) ++ [Ev.ser j false], some c, j - i + 1) := by
  induction ns generalizing i with
  | nil => simp [loop, firstFailure]
  | cons o rest ih =>
    cases o with
    | none =>
      simp only [loop, firstFailure, allTrue, if_true]
      have := ih (i + 1)
      simp only [allTrue] at this
      rw [this]
      cases hf : firstFailure rest (i + 1) with
      | none => simp [List.range'_succ]
      | some jc =>
        obtain ⟨j, c⟩ := jc
        have hj : i + 1 ≤ j := firstFailure_ge rest (i + 1) j c hf
        have h1 : j - i = (j - (i + 1)) + 1 := by omega
        simp only [h1, List.range'_succ, List.map_cons, List.cons_append, List.nil_append]

    | some c =>
      cases c <;> simp [loop, firstFailure, allTrue, catches]
where
  firstFailure_ge : ∀ (ns : List (Option ExcClass)) (i j : Nat) (c : ExcClass), firstFailure ns i = some (j, c) → i ≤ j
    | [], _, _, _, h => by simp [firstFailure] at h
    | none :: rest, i, j, c, h => by
      simp only [firstFailure] at h
      have := firstFailure_ge rest (i + 1) j c h
      omega
    | some c' :: _, i, j, c, h => by
      simp only [firstFailure] at h
      injection h with h; injection h with h1 _; omega

/-- **C06.** With a good lifecycle shape every traced run — successful, failing at any node with any
    class of exception, or failing while nodes are constructed — emits exactly `pipeline_start`, one SER
    per node that started (all succeeded except a final failing one) and one `pipeline_end` that says ok
    iff the run returned; the original exception reaches the caller; the driver is flushed and closed. -/
theorem trace_wellformed (sh : LifecycleShape) (h : sh.good = true) (p : Plan) : runTraced sh p = expected p := by
  rw [good_eq sh h]
  obtain ⟨construct, nodes⟩ := p
  cases construct with
  | some c =>
    cases c <;> simp [runTraced, protectedBody, expected, allTrue, catches]
  | none =>
    simp only [runTraced, protectedBody, expected, allTrue, if_true, Bool.false_eq_true, if_false]
    have hl := loop_allTrue nodes 0
    simp only [allTrue] at hl
    rw [hl]
    cases hf : firstFailure nodes 0 with
    | none => simp [List.range_eq_range']
    | some jc =>
      obtain ⟨j, c⟩ := jc
      cases c <;> simp [catches, List.range_eq_range']

/-! ## Consequences in the vocabulary of the property -/

/-- The stream always starts with `pipeline_start` and ends with exactly one `pipeline_end`. -/
theorem getLast?_snoc (l : List Ev) (x : Ev) : (l ++ [x]).getLast? = some x := by simp

theorem bracketed (sh : LifecycleShape) (h : sh.good = true) (p : Plan) :
    (runTraced sh p).events.head? = some .start
    ∧ ∃ ok, (runTraced sh p).events.getLast? = some (.end_ ok) ∧ (ok = true ↔ (runTraced sh p).raised = none) := by
  rw [trace_wellformed sh h p]
  obtain ⟨construct, nodes⟩ := p
  cases construct with
  | some c => exact ⟨rfl, false, rfl, by simp [expected]⟩
  | none =>
    simp only [expected]
    cases hf : firstFailure nodes 0 with
    | none =>
      refine ⟨by simp, true, ?_, by simp⟩
      exact getLast?_snoc _ _
    | some jc =>
      obtain ⟨j, c⟩ := jc
      refine ⟨by simp, false, ?_, by simp⟩
      simp only
      have : [Ev.start] ++ List.map (fun i => Ev.ser i true) (List.range j) ++ [Ev.ser j false, Ev.end_ false]
          = ([Ev.start] ++ List.map (fun i => Ev.ser i true) (List.range j) ++ [Ev.ser j false]) ++ [Ev.end_ false] := by
        simp
      rw [this]
      exact getLast?_snoc _ _

theorem always_closed (sh : LifecycleShape) (h : sh.good = true) (p : Plan) : (runTraced sh p).closed = true := by
  rw [trace_wellformed sh h p]
  obtain ⟨construct, nodes⟩ := p
  cases construct with
  | some c => rfl
  | none =>
    simp only [expected]
    cases firstFailure nodes 0 with
    | none => rfl
    | some jc => rfl

/-! ## A failure between nodes -/

/-- **C06 (failure between nodes).** With a good lifecycle shape and the publish call placed after the per-node try,
    a run in which publishing the output of node `k` raises — for every `k` and either class of exception — leaves
    `pipeline_start`, exactly one (succeeded) SER for each of the `k+1` nodes that started and one error `pipeline_end`;
    the original exception reaches the caller; the driver is closed. -/
theorem publish_fault_wellformed (sh : LifecycleShape) (h : sh.good = true) (k : Nat) (c : ExcClass) :
    runPublishFault sh true k c = expectedPublishFault k c := by
  rw [good_eq sh h]
  cases c <;> simp [runPublishFault, expectedPublishFault, allTrue, catches]

/-- One SER per started node: no node index occurs twice in the stream. -/
theorem publish_fault_one_ser_per_node (sh : LifecycleShape) (h : sh.good = true) (k : Nat) (c : ExcClass) (i : Nat) :
    ((runPublishFault sh true k c).events.filter (fun e => match e with | .ser j _ => j == i | _ => false)).length ≤ 1 := by
  rw [publish_fault_wellformed sh h k c]
  simp only [expectedPublishFault, List.filter_append, List.length_append]
  have : (List.filter (fun e => match e with | Ev.ser j _ => j == i | _ => false) ((List.range (k + 1)).map (fun i => Ev.ser i true))).length ≤ 1 := by
    rw [List.filter_map]
    simp only [List.length_map]
    have hnd : (List.range (k + 1)).Nodup := List.nodup_range
    have : (List.filter ((fun e => match e with | Ev.ser j _ => j == i | _ => false) ∘ fun i => Ev.ser i true) (List.range (k + 1)))
        = (List.range (k + 1)).filter (fun j => j == i) := by
      apply List.filter_congr; intro x _; rfl
    rw [this]
    exact List.Nodup.length_filter_beq_le_one hnd i
  simp
  omega
where
  List.Nodup.length_filter_beq_le_one {l : List Nat} (h : l.Nodup) (i : Nat) : (l.filter (fun j => j == i)).length ≤ 1 := by
    induction l with
    | nil => simp
    | cons x xs ih =>
      have hx := (List.nodup_cons.mp h)
      by_cases e : x = i
      · subst e
        have : xs.filter (fun j => j == x) = [] := by
          apply List.filter_eq_nil_iff.mpr
          intro y hy; simp; intro e; subst e; exact hx.1 hy
        simp [List.filter_cons, this]
      · have : (x == i) = false := by simpa using e
        simp [List.filter_cons, this, ih hx.2]

/-- With the publish call *inside* the per-node try (the seeded defect), node `k` gets a second, contradicting SER. -/
example : (runPublishFault allTrue false 1 .exception).events
    = [.start, .ser 0 true, .ser 1 true, .ser 1 false, .end_ false] := by decide

/-! ## Non-vacuity: each way of not being good, with the run that shows it -/

example : allTrue.good = true := by decide
/-- construction outside the protected region (the repository before its fix): no `pipeline_end`, not closed -/
example : runTraced { allTrue with constructProtected := false } { construct := some .exception, nodes := [none] }
    = { events := [.start], closed := false, raised := some .exception, ran := 0 } := by decide
/-- handlers that only catch `Exception`: a KeyboardInterrupt at node 1 leaves `start, ser ok` and no end -/
example : runTraced { allTrue with nodeCatchesBase := false, pipeCatchesBase := false } { nodes := [none, some .base, none] }
    = { events := [.start, .ser 0 true], closed := true, raised := some .base, ran := 2 } := by decide
/-- a per-node handler that swallows: later nodes run and the run "succeeds" -/
example : (runTraced { allTrue with nodeReraises := false } { nodes := [some .exception, none] }).raised = none := by decide

/-! ## The condition `good` is not stricter than the property

`trace_wellformed` shows that a good shape suffices.  The converse: five small fault plans (`witnessPlans`) tell every
other shape apart from the documented stream, so ten of the eleven flags are *necessary* — a shape that fails
`good10` has a concrete plan on which the emitted stream, the exception or the closed flag is wrong (that plan is the
replay the check looks for on the real code).  The eleventh flag, `startBeforeConstruct`, is unobservable in this model
while construction is protected (`start_flag_unobservable`); the translator still extracts it and `good` demands it,
because the real stream would then open with a record other than `pipeline_start`, which the correspondence run sees. -/

def witnessPlans : List Plan :=
  [ { construct := some .exception, nodes := [none] },
    { construct := some .base, nodes := [] },
    { nodes := [none] },
    { nodes := [some .exception, none] },
    { nodes := [some .base, none] } ]

def LifecycleShape.good10 (sh : LifecycleShape) : Bool :=
  sh.constructProtected && sh.nodeCatchesBase && sh.pipeCatchesBase && sh.serOnSuccess
    && sh.serOnError && sh.nodeReraises && sh.pipeReraises && sh.endOkAfterLoop && sh.endErrInHandler && sh.closeInFinally

def agreesOn (sh : LifecycleShape) (ps : List Plan) : Bool := ps.all fun p => decide (runTraced sh p = expected p)

theorem good_necessary_table : ∀ a b c d e f g h i j k : Bool,
    agreesOn ⟨a, b, c, d, e, f, g, h, i, j, k⟩ witnessPlans = true → LifecycleShape.good10 ⟨a, b, c, d, e, f, g, h, i, j, k⟩ = true := by
  decide +kernel

theorem good_necessary (sh : LifecycleShape) (h : ∀ p ∈ witnessPlans, runTraced sh p = expected p) : sh.good10 = true := by
  obtain ⟨a, b, c, d, e, f, g, i, j, k, l⟩ := sh
  apply good_necessary_table
  simp only [agreesOn, List.all_eq_true, decide_eq_true_eq]
  exact h

theorem loop_indep (sh : LifecycleShape) (v : Bool) (ns : List (Option ExcClass)) (i : Nat) :
    loop { sh with startBeforeConstruct := v } ns i = loop sh ns i := by
  induction ns generalizing i with
  | nil => rfl
  | cons n ns ih =>
    cases n with
    | none => simp only [loop, ih]
    | some c => simp only [loop, ih]

theorem start_flag_unobservable (sh : LifecycleShape) (hp : sh.constructProtected = true) (v : Bool) (p : Plan) :
    runTraced { sh with startBeforeConstruct := v } p = runTraced sh p := by
  obtain ⟨a, b, c, d, e, f, g, i, j, k, l⟩ := sh
  simp only at hp
  subst hp
  have hl := loop_indep ⟨a, true, c, d, e, f, g, i, j, k, l⟩ v p.nodes 0
  simp only at hl
  simp only [runTraced, protectedBody, if_true, hl]

theorem trace_wellformed_iff (sh : LifecycleShape) : (∀ p, runTraced sh p = expected p) ↔ sh.good10 = true := by
  constructor
  · intro h; exact good_necessary sh (fun p _ => h p)
  · intro h p
    have hp : sh.constructProtected = true := by
      simp only [LifecycleShape.good10, Bool.and_eq_true] at h; exact h.1.1.1.1.1.1.1.1.1
    rw [← start_flag_unobservable sh hp true p]
    apply trace_wellformed
    simp only [LifecycleShape.good10, Bool.and_eq_true] at h
    simp [LifecycleShape.good, h]

/-- the witness plans separate a concrete bad shape -/
example : agreesOn { allTrue with closeInFinally := false } witnessPlans = false := by decide
example : agreesOn allTrue witnessPlans = true := by decide

end SemantivaModel.Trace
