import SemantivaModel.Properties.C04
/-!
# C05 — identities discriminate: a change of meaning changes the pre-image

Tree-level injectivity: if two canonical pre-image trees are equal then every identity-bearing field
is equal; contrapositively a change in any such field changes the tree that is hashed.  "The IDs
differ" then follows from "the canonical texts differ" and collision resistance of SHA-256 / UUIDv5,
which are outside the model (the text-level step — injectivity of the compact JSON rendering on
normal forms — is trusted, see DESIGN §5).
-/
namespace SemantivaModel.Json

theorem lookup_insertM_self (x : String × J) (ms : Members) (hx : x.1 ∉ ms.map (·.1)) :
    (insertM x ms).lookup x.1 = some x.2 := by
  induction ms with
  | nil => simp [insertM, List.lookup]
  | cons y ys ih =>
    simp only [List.map_cons, List.mem_cons, not_or] at hx
    unfold insertM
    split
    · simp [List.lookup]
    · have : (x.1 == y.1) = false := by simpa using hx.1
      simp only [List.lookup, this]
      exact ih hx.2

theorem lookup_insertM_other (x : String × J) (ms : Members) (k : String) (hk : k ≠ x.1) :
    (insertM x ms).lookup k = ms.lookup k := by
  have hkx : (k == x.1) = false := by simpa using hk
  induction ms with
  | nil => simp [insertM, List.lookup, hkx]
  | cons y ys ih =>
    unfold insertM
    split
    · simp [List.lookup, hkx]
    · simp only [List.lookup]
      cases (k == y.1) <;> simp [ih]

theorem sortMembers_keys_perm (ms : Members) : ((sortMembers ms).map (·.1)).Perm (ms.map (·.1)) :=
  (sortMembers_perm ms).map _

/-- Sorting does not change what a key maps to (pairwise distinct keys). -/
theorem lookup_sortMembers (ms : Members) (hn : (ms.map (·.1)).Nodup) (k : String) :
    (sortMembers ms).lookup k = ms.lookup k := by
  induction ms with
  | nil => rfl
  | cons x xs ih =>
    simp only [List.map_cons, List.nodup_cons] at hn
    show (insertM x (sortMembers xs)).lookup k = _
    by_cases hk : k = x.1
    · subst hk
      rw [lookup_insertM_self x _ (fun h => hn.1 ((sortMembers_keys_perm xs).subset h))]
      simp [List.lookup]
    · rw [lookup_insertM_other x _ k hk, ih hn.2]
      have : (k == x.1) = false := by simpa using hk
      simp [List.lookup, this]

theorem lookup_normMembers (ms : Members) (k : String) : (normMembers ms).lookup k = (ms.lookup k).map norm := by
  induction ms with
  | nil => rfl
  | cons m rest ih =>
    obtain ⟨k', v⟩ := m
    simp only [normMembers, List.lookup]
    cases (k == k') <;> simp [ih]

/-- **Field access through the normal form.** -/
theorem lookup_norm_obj (ms : Members) (hn : (ms.map (·.1)).Nodup) (k : String) :
    lookup (norm (.obj ms)) k = (ms.lookup k).map norm := by
  simp only [norm, lookup]
  rw [lookup_sortMembers _ (by rw [normMembers_keys]; exact hn), lookup_normMembers]

/-- Equal normal forms of two objects agree on every field. -/
theorem field_eq_of_norm_eq {ms ms' : Members} (hn : (ms.map (·.1)).Nodup) (hn' : (ms'.map (·.1)).Nodup)
    (h : norm (.obj ms) = norm (.obj ms')) (k : String) : (ms.lookup k).map norm = (ms'.lookup k).map norm := by
  rw [← lookup_norm_obj ms hn k, ← lookup_norm_obj ms' hn' k, h]

end SemantivaModel.Json

namespace SemantivaModel.Identity
open SemantivaModel.Json

attribute [local irreducible] str num jnull bool

/-- **C05 (node).** If two canonical node trees have the same normal form, then the nodes agree on role,
    processor reference, parameters (up to key order), ports and declaration index.  So changing the
    processor of a node, any parameter value at any depth, or its position changes the tree its UUID is
    derived from. -/
theorem nodeCanon_injective (n n' : NodeCfg) (i j : Nat) (h : norm (nodeCanon n i) = norm (nodeCanon n' j)) :
    str n.role = str n'.role ∧ str n.processorRef = str n'.processorRef ∧ norm n.params = norm n'.params
      ∧ norm n.ports = norm n'.ports ∧ num i = num j := by
  have hk : ∀ (m : NodeCfg) (x : Nat), (([("role", str m.role), ("processor_ref", str m.processorRef), ("params", m.params),
      ("ports", m.ports), ("declaration_index", num x), ("declaration_subindex", num 0)] : Members).map (·.1)).Nodup := by
    intro m x; simp
  have f := fun k => field_eq_of_norm_eq (hk n i) (hk n' j) h k
  have f1 := f "role"; have f2 := f "processor_ref"; have f3 := f "params"; have f4 := f "ports"; have f5 := f "declaration_index"
  simp [List.lookup] at f1 f2 f3 f4 f5
  have atomNorm : ∀ a b : J, (∃ t, a = .atom t) → (∃ t, b = .atom t) → norm a = norm b → a = b := by
    rintro a b ⟨t, rfl⟩ ⟨u, rfl⟩ hab; simpa [norm] using hab
  refine ⟨?_, ?_, f3, f4, ?_⟩
  · exact atomNorm _ _ (by unfold str; exact ⟨_, rfl⟩) (by unfold str; exact ⟨_, rfl⟩) f1
  · exact atomNorm _ _ (by unfold str; exact ⟨_, rfl⟩) (by unfold str; exact ⟨_, rfl⟩) f2
  · exact atomNorm _ _ (by unfold num; exact ⟨_, rfl⟩) (by unfold num; exact ⟨_, rfl⟩) f5

/-- **C05 (distinct UUIDs).** Two nodes of one pipeline, even textually identical ones, have different
    pre-images because their declaration indices differ (the decimal rendering of naturals being
    injective — the hypothesis `hnum`). -/
theorem nodeCanon_distinct_positions (hnum : ∀ a b : Nat, num a = num b → a = b) (n n' : NodeCfg) (i j : Nat)
    (hij : i ≠ j) : norm (nodeCanon n i) ≠ norm (nodeCanon n' j) := by
  intro h
  exact hij (hnum i j (nodeCanon_injective n n' i j h).2.2.2.2)

/-- **C05 (sweep definition).** Equal normal forms of two sweep descriptions agree on the wrapped
    processor, the mode, the broadcast flag, the collection, the variable domains and the expression
    signatures (each up to key order). -/
theorem sweepMeta_injective (b : Bool) (s s' : SweepCfg) (h : norm (sweepMeta b s) = norm (sweepMeta b s')) :
    str s.elementRef = str s'.elementRef ∧ str s.mode = str s'.mode ∧ bool s.broadcast = bool s'.broadcast
      ∧ norm (.obj s.varDomains) = norm (.obj s'.varDomains)
      ∧ norm (J.obj (s.exprSigs.map (fun kv => (kv.1, J.obj [("sig", J.obj [("format", str "ExpressionSigV1"), ("ast", .atom kv.2)])]))))
        = norm (J.obj (s'.exprSigs.map (fun kv => (kv.1, J.obj [("sig", J.obj [("format", str "ExpressionSigV1"), ("ast", .atom kv.2)])])))) := by
  have hk : ∀ (x : SweepCfg), (([("type", str "derive.parameter_sweep"), ("version", num 1), ("element_ref", str x.elementRef),
        ("param_expressions", J.obj (x.exprSigs.map (fun kv =>
            (kv.1, J.obj [("sig", J.obj [("format", str "ExpressionSigV1"), ("ast", .atom kv.2)])])))),
        ("variables", J.obj x.varDomains),
        ("mode", str x.mode), ("broadcast", bool x.broadcast),
        ("collection", match x.collection with | some c => str c | none => jnull),
        ("dependencies", J.obj [("required_external_parameters", .arr (x.requiredExternal.map str)),
                               ("context_keys", .arr ((if b then Aggregator.ssort x.contextKeys else x.contextKeys).map str))])] : Members).map (·.1)).Nodup := by
    intro x; simp
  have f := fun k => field_eq_of_norm_eq (hk s) (hk s') h k
  have f1 := f "element_ref"; have f2 := f "mode"; have f3 := f "broadcast"; have f4 := f "variables"; have f5 := f "param_expressions"
  simp [List.lookup] at f1 f2 f3 f4 f5
  have atomNorm : ∀ a b : J, (∃ t, a = .atom t) → (∃ t, b = .atom t) → norm a = norm b → a = b := by
    rintro a b ⟨t, rfl⟩ ⟨u, rfl⟩ hab; simpa [norm] using hab
  refine ⟨?_, ?_, ?_, f4, f5⟩
  · exact atomNorm _ _ (by unfold str; exact ⟨_, rfl⟩) (by unfold str; exact ⟨_, rfl⟩) f1
  · exact atomNorm _ _ (by unfold str; exact ⟨_, rfl⟩) (by unfold str; exact ⟨_, rfl⟩) f2
  · exact atomNorm _ _ (by unfold bool; exact ⟨_, rfl⟩) (by unfold bool; exact ⟨_, rfl⟩) f3

/-- **C05 (roll-up).** The pipeline-level semantic payload determines the list of node UUIDs in order, and —
    when the code includes it (`withNodeSem`) — the node semantic id of every preprocessed node: adding,
    removing, re-ordering a node or changing a sweep definition changes the payload. -/
theorem semanticPayload_injective (b : Bool) (ns ns' : List NodeId)
    (h : norm (semanticPayload b ns) = norm (semanticPayload b ns')) :
    ns.map (fun n => norm (J.obj ([("name", jnull), ("node_uuid", str n.uuid), ("payload_from", jnull)]
             ++ (if b && n.semid != "none" then [("node_semantic_id", str n.semid)] else []))))
    = ns'.map (fun n => norm (J.obj ([("name", jnull), ("node_uuid", str n.uuid), ("payload_from", jnull)]
             ++ (if b && n.semid != "none" then [("node_semantic_id", str n.semid)] else [])))) := by
  unfold semanticPayload at h
  have hk : (([("nodes", J.arr [])] : Members).map (·.1)).Nodup := by simp
  have f := field_eq_of_norm_eq (ms := [("nodes", J.arr (ns.map _))]) (ms' := [("nodes", J.arr (ns'.map _))])
    (by simp) (by simp) h "nodes"
  simp only [List.lookup, beq_self_eq_true, Option.map_some, Option.some.injEq, norm, J.arr.injEq] at f
  have key : ∀ (l : List J), normList l = l.map norm := by
    intro l; induction l with
    | nil => rfl
    | cons x xs ih => simp [normList, ih]
  rw [key, key, List.map_map, List.map_map] at f
  exact f

end SemantivaModel.Identity
