import SemantivaModel.Model.RunSpace
/-!
# C08 — run-space expansion yields exactly the documented ordered list of runs, cap enforced early

Theorems over the run-space model for any number of blocks, keys and values.
-/
namespace SemantivaModel.RunSpace

/-! ## 1. Keys are taken in sorted order -/

theorem insertCol_perm (x : String × List Val) (c : Cols) : (insertCol x c).Perm (x :: c) := by
  induction c with
  | nil => exact .refl _
  | cons y ys ih =>
    unfold insertCol
    split
    · exact .refl _
    · exact (ih.cons y).trans (.swap x y ys)

theorem sortCols_perm (c : Cols) : (sortCols c).Perm c := by
  induction c with
  | nil => exact .refl _
  | cons x xs ih => exact (insertCol_perm x _).trans (ih.cons x)

theorem insertCol_sorted (x : String × List Val) (c : Cols) (h : c.Pairwise (fun a b => a.1 ≤ b.1)) :
    (insertCol x c).Pairwise (fun a b => a.1 ≤ b.1) := by
  induction c with
  | nil => simp [insertCol]
  | cons y ys ih =>
    have hy := List.pairwise_cons.mp h
    unfold insertCol
    split
    · rename_i hxy
      refine List.pairwise_cons.mpr ⟨?_, h⟩
      intro z hz
      rcases List.mem_cons.mp hz with rfl | hz
      · exact hxy
      · exact String.le_trans hxy (hy.1 z hz)
    · rename_i hxy
      have hyx : y.1 ≤ x.1 := (String.le_total _ _).resolve_left hxy
      refine List.pairwise_cons.mpr ⟨?_, ih hy.2⟩
      intro z hz
      rcases List.mem_cons.mp ((insertCol_perm x ys).subset hz) with rfl | hz
      · exact hyx
      · exact hy.1 z hz

/-- **C08 (sorted keys).** Inside a block the keys are enumerated in sorted order, whatever the
    order of the mapping in the configuration; no key is lost or invented. -/
theorem sortCols_sorted (c : Cols) : (sortCols c).Pairwise (fun a b => a.1 ≤ b.1) ∧ (sortCols c).Perm c := by
  refine ⟨?_, sortCols_perm c⟩
  induction c with
  | nil => exact List.Pairwise.nil
  | cons x xs ih => exact insertCol_sorted x _ ih

/-! ## 2. Cartesian product: size, order (last key fastest), keys -/

theorem expandComb_length (c : Cols) : (expandComb c).length = combSize c := by
  induction c with
  | nil => rfl
  | cons kv rest ih =>
    obtain ⟨k, vs⟩ := kv
    simp only [expandComb, combSize]
    induction vs with
    | nil => simp
    | cons v vs ihv =>
      simp only [List.flatMap_cons, List.length_append, List.length_map, List.length_cons, ihv, ih]
      rw [Nat.add_mul, Nat.one_mul, Nat.add_comm]

/-- Indexing a concatenation of equally long chunks. -/
theorem getElem?_flatMap_uniform {α β : Type} (f : α → List β) (n : Nat) (hn0 : 0 < n)
    (hn : ∀ x, (f x).length = n) (xs : List α) (i : Nat) :
    (xs.flatMap f)[i]? = (xs[i / n]?).bind (fun x => (f x)[i % n]?) := by
  induction xs generalizing i with
  | nil => simp
  | cons a as ih =>
    simp only [List.flatMap_cons]
    by_cases hi : i < n
    · rw [List.getElem?_append_left (by rw [hn]; exact hi)]
      simp [Nat.div_eq_of_lt hi, Nat.mod_eq_of_lt hi]
    · have hge : n ≤ i := Nat.le_of_not_lt hi
      rw [List.getElem?_append_right (by rw [hn]; exact hge), hn, ih]
      have h1 : i / n = (i - n) / n + 1 := by
        have := Nat.div_eq_sub_div hn0 hge
        omega
      have h2 : (i - n) % n = i % n := by
        rw [Nat.mod_eq_sub_mod hge]
      rw [h1, h2]
      simp

/-- **C08 (product order).** Run `i` of the product over `(k, vs) :: rest` takes `vs[i / P]` for the first
    key and is run `i % P` of the product over the remaining keys (`P` = size of that product): the last
    key varies fastest, the first slowest — `itertools.product` order. Unfolding it gives the closed form
    `vsⱼ[(i / ∏_{w>j} n_w) % n_j]` for every key `j`. -/
theorem expandComb_getElem? (k : String) (vs : List Val) (rest : Cols) (i : Nat) (hP : 0 < combSize rest) :
    (expandComb ((k, vs) :: rest))[i]? =
      (vs[i / combSize rest]?).bind (fun v => ((expandComb rest)[i % combSize rest]?).map (fun r => (k, v) :: r)) := by
  simp only [expandComb]
  rw [getElem?_flatMap_uniform _ (combSize rest) hP (fun v => by simp [expandComb_length])]
  congr 1
  funext v
  simp [List.getElem?_map]

/-- Every run of a product carries exactly the keys of the mapping, in order. -/
theorem expandComb_keys (c : Cols) : ∀ r ∈ expandComb c, r.map (·.1) = keysOf c := by
  induction c with
  | nil => intro r hr; simp [expandComb] at hr; subst hr; rfl
  | cons kv rest ih =>
    obtain ⟨k, vs⟩ := kv
    intro r hr
    simp only [expandComb, List.mem_flatMap, List.mem_map] at hr
    obtain ⟨v, _, r', hr', rfl⟩ := hr
    simp [keysOf, ih r' hr']

/-- A product with an empty value list is empty; with no keys it is the single empty run. -/
theorem expandComb_empty_col (k : String) (rest : Cols) : expandComb ((k, []) :: rest) = [] := rfl

/-! ## 3. Aligned positions -/

theorem expandPosN_length (c : Cols) (n : Nat) : (expandPosN c n).length = n := by
  simp [expandPosN]

/-- **C08 (by_position).** Run `i` takes position `i` of every key. -/
theorem expandPosN_getElem? (c : Cols) (n i : Nat) (hi : i < n) : (expandPosN c n)[i]? = some (posRun c i) := by
  simp [expandPosN, List.getElem?_map, List.getElem?_range hi]

theorem posRun_keys (c : Cols) (i : Nat) : (posRun c i).map (·.1) = keysOf c := by
  simp [posRun, keysOf]

/-- Unequal lengths are rejected, equal lengths accepted with that common length. -/
theorem posSize_ok_iff (k : String) (vs : List Val) (rest : Cols) (n : Nat) :
    posSize ((k, vs) :: rest) = .ok n ↔ (n = vs.length ∧ ∀ kv ∈ rest, kv.2.length = vs.length) := by
  simp only [posSize]
  by_cases h : rest.all (fun kv => kv.2.length == vs.length) = true
  · rw [if_pos h]
    simp only [List.all_eq_true, beq_iff_eq] at h
    constructor
    · intro e; injection e with e; exact ⟨e.symm, h⟩
    · rintro ⟨rfl, _⟩; rfl
  · rw [if_neg h]
    simp only [List.all_eq_true, beq_iff_eq] at h
    constructor
    · intro e; cases e
    · rintro ⟨_, h'⟩; exact absurd h' h

theorem posSize_mismatch (k : String) (vs : List Val) (rest : Cols) (kv : String × List Val)
    (hkv : kv ∈ rest) (hne : kv.2.length ≠ vs.length) : posSize ((k, vs) :: rest) = .error .mismatch := by
  simp only [posSize]
  rw [if_neg]
  · rfl
  · simp only [List.all_eq_true, beq_iff_eq]
    intro h; exact hne (h kv hkv)

/-! ## 4. The arithmetic plan equals the materialised size -/

theorem expandEntries_length (c : Cols) (m : Mode) (n : Nat) (h : entriesSize c m = .ok n) :
    (expandEntries c m).length = n := by
  cases m with
  | byPos =>
    simp only [entriesSize] at h
    simp only [expandEntries, h, expandPosN_length]
  | comb =>
    simp only [entriesSize] at h
    injection h with h
    simp only [expandEntries, expandComb_length, h]

theorem zipRuns_length (xs ys : List Run) (h : xs.length = ys.length) : (zipRuns xs ys).length = xs.length := by
  induction xs generalizing ys with
  | nil => cases ys <;> simp [zipRuns]
  | cons x xs ih =>
    cases ys with
    | nil => simp at h
    | cons y ys => simp only [zipRuns, List.length_cons]; rw [ih ys (by simpa using h)]

theorem crossRuns_length (xs ys : List Run) : (crossRuns xs ys).length = xs.length * ys.length := by
  unfold crossRuns
  induction xs with
  | nil => simp
  | cons x xs ih =>
    simp only [List.flatMap_cons, List.length_append, List.length_map, ih, List.length_cons]
    rw [Nat.add_mul, Nat.one_mul, Nat.add_comm]

/-- **C08 (planned size = materialised size), one block.** -/
theorem blockSize_length (mode : Mode) (ctx src : Cols) (sm : Mode) (n : Nat)
    (h : blockSize mode ctx src sm = .ok n) : (blockRuns mode ⟨ctx, src, sm, n⟩).length = n := by
  cases mode with
  | byPos =>
    simp only [blockSize, posPlan] at h
    simp only [blockRuns]
    cases hc : ctx.isEmpty <;> cases hs : src.isEmpty <;> simp only [hc, hs] at h ⊢
    · split at h
      · cases h
      · rename_i a ha
        split at h
        · cases h
        · rename_i c hcc
          split at h
          · rename_i heq
            injection h with h; subst h
            rw [zipRuns_length _ _ (by rw [expandEntries_length _ _ _ ha, expandEntries_length _ _ _ hcc, heq])]
            exact expandEntries_length _ _ _ ha
          · cases h
    · exact expandEntries_length _ _ _ h
    · exact expandEntries_length _ _ _ h
    · injection h with h
  | comb =>
    simp only [blockSize, combPlan] at h
    simp only [blockRuns, crossRuns_length]
    split at h
    · cases h
    · rename_i a ha
      split at h
      · cases h
      · rename_i c hcc
        injection h with h; subst h
        congr 1
        · cases hc : ctx.isEmpty <;> simp only [hc, if_true, if_false, Bool.false_eq_true] at ha ⊢
          · exact expandEntries_length _ _ _ ha
          · injection ha with ha
        · cases hs : src.isEmpty <;> simp only [hs, if_true, if_false, Bool.false_eq_true] at hcc ⊢
          · exact expandEntries_length _ _ _ hcc
          · injection hcc with hcc

theorem blockRuns_length (b : Block) (p : BlockPlan) (h : planBlock b = .ok p) :
    (blockRuns b.mode p).length = p.size := by
  unfold planBlock at h
  split at h
  · cases h
  · split at h
    · cases h
    · split at h
      · cases h
      · rename_i n hn
        injection h with h; subst h
        exact blockSize_length _ _ _ _ _ hn

theorem planBlocks_lengths (bs : List Block) (seen : List String) (plans : List (Mode × BlockPlan))
    (h : planBlocks bs seen = .ok plans) :
    (plans.map (fun mp => (blockRuns mp.1 mp.2).length)) = plans.map (·.2.size) := by
  induction bs generalizing seen plans with
  | nil => simp only [planBlocks, pure, Except.pure] at h; injection h with h; subst h; rfl
  | cons b bs ih =>
    simp only [planBlocks, bind, Except.bind] at h
    split at h
    · cases h
    · rename_i p hp
      split at h
      · cases h
      · split at h
        · cases h
        · rename_i rest hrest
          simp only [pure, Except.pure] at h
          injection h with h; subst h
          simp only [List.map_cons, ih _ _ hrest, blockRuns_length b p hp]

theorem foldl_crossRuns_length (rest : List (List Run)) (acc : List Run) :
    (rest.foldl crossRuns acc).length = (rest.map List.length).foldl (· * ·) acc.length := by
  induction rest generalizing acc with
  | nil => rfl
  | cons r rest ih => simp only [List.foldl_cons, List.map_cons]; rw [ih, crossRuns_length]

theorem foldl_zipRuns_length (rest : List (List Run)) (acc : List Run) (h : ∀ r ∈ rest, r.length = acc.length) :
    (rest.foldl zipRuns acc).length = acc.length := by
  induction rest generalizing acc with
  | nil => rfl
  | cons r rest ih =>
    simp only [List.foldl_cons]
    have hr := h r (by simp)
    have hz := zipRuns_length acc r hr.symm
    rw [ih _ (fun r' hr' => by rw [hz]; exact h r' (List.mem_cons_of_mem _ hr')), hz]

/-- **C08 (planned total = number of runs).** The number of runs the combination step produces equals
    the total computed from the block sizes alone — so comparing that total with `max_runs` *before*
    materialising is the same test as counting the expansion afterwards. -/
theorem combineRuns_length (combine : Mode) (lists : List (List Run)) (n : Nat)
    (h : total combine (lists.map List.length) = .ok n) : (combineRuns combine lists).length = n := by
  cases lists with
  | nil => simp only [List.map_nil, total, pure, Except.pure] at h; injection h with h
  | cons rs rest =>
    cases combine with
    | comb =>
      simp only [List.map_cons, total, pure, Except.pure] at h
      injection h with h; subst h
      simp only [combineRuns, foldl_crossRuns_length, List.foldl_cons, Nat.one_mul]
    | byPos =>
      simp only [List.map_cons, total] at h
      split at h
      · rename_i hall
        simp only [pure, Except.pure] at h
        injection h with h; subst h
        simp only [combineRuns]
        apply foldl_zipRuns_length
        intro r hr
        simp only [List.all_eq_true, List.mem_map, beq_iff_eq, forall_exists_index, and_imp] at hall
        exact hall _ r hr rfl
      · cases h

/-- **C08 (cap).** Once every validation has passed and `n` is the planned total: the expansion is
    rejected with the max-runs error carrying `n` exactly when `n` exceeds the cap (nothing is
    materialised on that path); otherwise exactly `n` runs are returned. -/
theorem expand_of_plan (s : Spec) (plans : List (Mode × BlockPlan)) (n : Nat)
    (hp : planBlocks s.blocks [] = .ok plans) (ht : total s.combine (plans.map (·.2.size)) = .ok n) :
    (n > s.maxRuns → expand s = .error (.maxRuns n))
    ∧ (n ≤ s.maxRuns → ∃ runs, expand s = .ok runs ∧ runs.length = n) := by
  unfold expand
  simp only [bind, Except.bind, hp, ht]
  constructor
  · intro h; simp only [h, if_true]; rfl
  · intro h
    have h' : ¬ n > s.maxRuns := Nat.not_lt.mpr h
    simp only [h', if_false, pure, Except.pure]
    refine ⟨_, rfl, ?_⟩
    apply combineRuns_length
    rw [List.map_map]
    have := planBlocks_lengths s.blocks [] plans hp
    simp only [Function.comp_def]
    rw [this]; exact ht

/-- Validation errors (mismatch, duplicates, rename collision, missing column) take precedence and
    are reported as such. -/
theorem expand_validation_error (s : Spec) (e : Err) (hp : planBlocks s.blocks [] = .error e) :
    expand s = .error e := by
  unfold expand; simp only [bind, Except.bind, hp]

theorem expand_combine_mismatch (s : Spec) (plans : List (Mode × BlockPlan)) (e : Err)
    (hp : planBlocks s.blocks [] = .ok plans) (ht : total s.combine (plans.map (·.2.size)) = .error e) :
    expand s = .error e := by
  unfold expand; simp only [bind, Except.bind, hp, ht]

/-- Whatever is returned respects the cap. -/
theorem expand_ok_le_cap (s : Spec) (runs : List Run) (h : expand s = .ok runs) : runs.length ≤ s.maxRuns := by
  unfold expand at h
  simp only [bind, Except.bind] at h
  split at h
  · cases h
  · rename_i plans hp
    split at h
    · cases h
    · rename_i n ht
      by_cases hn : n > s.maxRuns
      · simp [hn] at h
      · have := (expand_of_plan s plans n hp ht).2 (Nat.not_lt.mp hn)
        obtain ⟨runs', h1, h2⟩ := this
        simp only [hn, if_false, pure, Except.pure] at h
        unfold expand at h1
        simp only [bind, Except.bind, hp, ht, hn, if_false, pure, Except.pure] at h1
        rw [h] at h1
        injection h1 with h1
        rw [h1, h2]; exact Nat.not_lt.mp hn

/-! ## 5. Non-vacuity -/

def demoSpec : Spec :=
  { blocks := [{ mode := .comb, context := [("b", ["1", "2"]), ("a", ["x", "y", "z"])], source := none },
               { mode := .byPos, context := [("c", ["p", "q"])],
                 source := some { mode := .byPos, cols := [("d", ["u", "v"]), ("e", ["0", "1"])], select := some ["d"], rename := [("d", "dd")] } }],
    combine := .comb, maxRuns := 12 }

example : (expand demoSpec).toOption.map List.length = some 12 := by decide +kernel
/-- keys sorted inside the block (`a` before `b`), last key fastest, blocks in declaration order -/
example : (expand demoSpec).toOption.bind (·[1]?) = some [("a", "x"), ("b", "1"), ("c", "q"), ("dd", "v")] := by decide +kernel
example : expand { demoSpec with maxRuns := 11 } = .error (.maxRuns 12) := by decide +kernel
/-- no blocks: one empty run; with `max_runs = 0` that single run already exceeds the cap -/
example : expand { blocks := [], combine := .comb, maxRuns := 1 } = .ok [[]] := by decide +kernel
example : expand { blocks := [], combine := .comb, maxRuns := 0 } = .error (.maxRuns 1) := by decide +kernel

end SemantivaModel.RunSpace
