import SemantivaModel.Proofs.Aggregator
/-!
# C13 — trace aggregation is order-independent and right for every partial trace

Property theorems over the aggregator model, for record lists of any length, any status tables
satisfying the decidable side conditions `runTableOK` / `launchTableOK`, any terminal-status list.
-/
namespace SemantivaModel.Aggregator

/-! ## 1. Order independence -/

/-- **C13 (runs).** The verdict of a run depends only on the multiset of records ingested, provided
    the records are compatible (one canonical spec per run, one status per (run, node)). -/
theorem run_verdict_perm_invariant (tbl : RunTable) (terminal : List String) (r : String)
    {rs rs' : List Rec} (hc : ∀ a ∈ rs, ∀ b ∈ rs, Compat r a b) (p : rs.Perm rs') :
    runVerdict tbl terminal r rs = runVerdict tbl terminal r rs' :=
  runVerdictOf_congr tbl terminal (foldl_stepRun_perm r p hc {})

structure LEquiv (s t : LaunchState) : Prop where
  sawStart : s.sawStart = t.sawStart
  sawEnd : s.sawEnd = t.sawEnd
  exists_ : s.exists_ = t.exists_
  runs : s.runs.Perm t.runs

theorem stepLaunch_congr (k : String × Nat) {s t : LaunchState} (h : LEquiv s t) (a : Rec) :
    LEquiv (stepLaunch k s a) (stepLaunch k t a) := by
  obtain ⟨h1, h2, h3, h4⟩ := h
  cases a with
  | rsStart l at_ => simp only [stepLaunch]; split <;> exact ⟨by first | rfl | exact h1, h2, by first | rfl | exact h3, h4⟩
  | rsEnd l at_ => simp only [stepLaunch]; split <;> exact ⟨h1, by first | rfl | exact h2, by first | rfl | exact h3, h4⟩
  | pStart r c fk ts =>
    cases fk with
    | none => exact ⟨h1, h2, h3, h4⟩
    | some fk => simp only [stepLaunch]; split <;> first | exact ⟨h1, h2, rfl, h4.cons _⟩ | exact ⟨h1, h2, h3, h4⟩
  | pEnd _ _ => exact ⟨h1, h2, h3, h4⟩
  | ser _ _ _ _ _ => exact ⟨h1, h2, h3, h4⟩
  | other => exact ⟨h1, h2, h3, h4⟩

theorem LEquiv.refl (s : LaunchState) : LEquiv s s := ⟨rfl, rfl, rfl, .refl _⟩
theorem LEquiv.trans {a b c : LaunchState} (h₁ : LEquiv a b) (h₂ : LEquiv b c) : LEquiv a c :=
  ⟨h₁.1.trans h₂.1, h₁.2.trans h₂.2, h₁.3.trans h₂.3, h₁.4.trans h₂.4⟩

theorem stepLaunch_comm (k : String × Nat) (s : LaunchState) (a b : Rec) :
    LEquiv (stepLaunch k (stepLaunch k s a) b) (stepLaunch k (stepLaunch k s b) a) := by
  cases a with
  | pStart r₁ c₁ fk₁ t₁ =>
    cases b with
    | pStart r₂ c₂ fk₂ t₂ =>
      cases fk₁ <;> cases fk₂ <;> simp only [stepLaunch] <;> (repeat' split) <;>
        first | exact LEquiv.refl _ | exact ⟨rfl, rfl, rfl, List.Perm.swap _ _ _⟩
    | _ => cases fk₁ <;> simp only [stepLaunch] <;> (repeat' split) <;> exact LEquiv.refl _
  | rsStart _ _ =>
    cases b with
    | pStart r₂ c₂ fk₂ t₂ => cases fk₂ <;> simp only [stepLaunch] <;> (repeat' split) <;> exact LEquiv.refl _
    | _ => simp only [stepLaunch] <;> (repeat' split) <;> exact LEquiv.refl _
  | rsEnd _ _ =>
    cases b with
    | pStart r₂ c₂ fk₂ t₂ => cases fk₂ <;> simp only [stepLaunch] <;> (repeat' split) <;> exact LEquiv.refl _
    | _ => simp only [stepLaunch] <;> (repeat' split) <;> exact LEquiv.refl _
  | _ =>
    cases b with
    | pStart r₂ c₂ fk₂ t₂ => cases fk₂ <;> simp only [stepLaunch] <;> (repeat' split) <;> exact LEquiv.refl _
    | _ => simp only [stepLaunch] <;> (repeat' split) <;> exact LEquiv.refl _

theorem foldl_stepLaunch_congr (k : String × Nat) (l : List Rec) {s t : LaunchState} (h : LEquiv s t) :
    LEquiv (l.foldl (stepLaunch k) s) (l.foldl (stepLaunch k) t) := by
  induction l generalizing s t with
  | nil => exact h
  | cons a l ih => exact ih (stepLaunch_congr k h a)

theorem foldl_stepLaunch_perm (k : String × Nat) {l l' : List Rec} (p : l.Perm l') (s : LaunchState) :
    LEquiv (l.foldl (stepLaunch k) s) (l'.foldl (stepLaunch k) s) := by
  induction p generalizing s with
  | nil => exact LEquiv.refl _
  | cons x _ ih => exact ih _
  | swap x y l => simp only [List.foldl_cons]; exact foldl_stepLaunch_congr k l (stepLaunch_comm k s y x)
  | trans _ _ ih₁ ih₂ => exact (ih₁ s).trans (ih₂ s)

/-- **C13 (launches).** The launch verdict, including the roll-up counts of its runs' verdicts,
    depends only on the multiset of records. -/
theorem launch_verdict_perm_invariant (rtbl : RunTable) (ltbl : LaunchTable) (terminal : List String)
    (k : String × Nat) {rs rs' : List Rec} (hc : ∀ r, ∀ a ∈ rs, ∀ b ∈ rs, Compat r a b) (p : rs.Perm rs') :
    launchVerdict rtbl ltbl terminal k rs = launchVerdict rtbl ltbl terminal k rs' := by
  have hl := foldl_stepLaunch_perm k p {}
  have hruns : ssort (aggLaunch k rs).runs = ssort (aggLaunch k rs').runs := ssort_perm hl.runs
  have hv : ∀ r, runVerdict rtbl terminal r rs = runVerdict rtbl terminal r rs' :=
    fun r => run_verdict_perm_invariant rtbl terminal r (hc r) p
  unfold launchVerdict
  have h1 : (aggLaunch k rs).sawStart = (aggLaunch k rs').sawStart := hl.sawStart
  have h2 : (aggLaunch k rs).sawEnd = (aggLaunch k rs').sawEnd := hl.sawEnd
  have h3 : (aggLaunch k rs).exists_ = (aggLaunch k rs').exists_ := hl.exists_
  simp only [h1, h2, h3, hruns, hv]

/-- Any k-way interleaving of per-run files is a permutation of their concatenation, so the
    verdicts of the interleaved stream are those of the concatenation. -/
theorem interleaving_invariant (tbl : RunTable) (terminal : List String) (r : String)
    (files : List (List Rec)) (merged : List Rec) (hm : merged.Perm files.flatten)
    (hc : ∀ a ∈ files.flatten, ∀ b ∈ files.flatten, Compat r a b) :
    runVerdict tbl terminal r merged = runVerdict tbl terminal r files.flatten :=
  (run_verdict_perm_invariant tbl terminal r hc hm.symm).symm

/-! ## 2. Finalising twice -/

theorem finalTs_idem (s : RunState) : finalTs (finalizeState s) = finalTs s := by
  unfold finalizeState finalTs
  cases h1 : s.startTs <;> cases h2 : s.endTs <;> cases h3 : s.serMin <;> cases h4 : s.serMax <;>
    simp [minOpt, maxOpt] <;> (try split) <;> omega

/-- **C13 (idempotent finalisation).** `finalize_run` writes the synthesised timestamps back; a second
    finalisation sees the same timestamps and returns the same verdict. -/
theorem finalize_idempotent (tbl : RunTable) (terminal : List String) (s : RunState) :
    runVerdictOf tbl terminal (finalizeState s) = runVerdictOf tbl terminal s
      ∧ finalizeState (finalizeState s) = finalizeState s := by
  constructor
  · unfold runVerdictOf runKnown startGtEnd
    rw [finalTs_idem]
    rfl
  · have := finalTs_idem s
    unfold finalizeState at *
    simp only [this]

/-! ## 3. Every prefix of a runtime trace gets the documented verdict -/

/-- A runtime trace of run `r` (C06): `pipeline_start`, one SER per node for the first `m` canonical
    nodes, `pipeline_end`. Statuses and timestamps are arbitrary. -/
def sers (r : String) (st : String → String) (ts fin : String → Option Nat) (ns : List String) : List Rec :=
  ns.map (fun n => .ser r n (st n) (ts n) (fin n))

def started (r : String) (canon : List String) (fk : Option (String × Nat)) (t₀ : Option Nat)
    (st : String → String) (ts fin : String → Option Nat) (j : Nat) : List Rec :=
  .pStart r canon fk t₀ :: sers r st ts fin (canon.take j)

def fullTrace (r : String) (canon : List String) (fk : Option (String × Nat)) (t₀ t₁ : Option Nat)
    (st : String → String) (ts fin : String → Option Nat) (m : Nat) : List Rec :=
  started r canon fk t₀ st ts fin m ++ [.pEnd r t₁]

theorem sers_any_isStart (r : String) (st ts fin) (ns : List String) : (sers r st ts fin ns).any (isStart r) = false := by
  induction ns with
  | nil => rfl
  | cons n ns ih => simp only [sers, List.map_cons, List.any_cons, isStart, Bool.false_or]; exact ih
theorem sers_any_isEnd (r : String) (st ts fin) (ns : List String) : (sers r st ts fin ns).any (isEnd r) = false := by
  induction ns with
  | nil => rfl
  | cons n ns ih => simp only [sers, List.map_cons, List.any_cons, isEnd, Bool.false_or]; exact ih
theorem sers_filterMap (r : String) (st ts fin) (ns : List String) : (sers r st ts fin ns).filterMap (serNode r) = ns := by
  induction ns with
  | nil => rfl
  | cons n ns ih => simp only [sers, List.map_cons, List.filterMap_cons, serNode, if_true]; exact congrArg _ ih
theorem sers_no_pStart (r : String) (st ts fin) (ns : List String) (c' fk' t') :
    Rec.pStart r c' fk' t' ∉ sers r st ts fin ns := by
  simp [sers]

/-- Every prefix of a runtime trace is empty, a started run with `j ≤ m` SERs, or the whole trace. -/
theorem take_fullTrace (r canon fk t₀ t₁ st ts fin) (m k : Nat) :
    (fullTrace r canon fk t₀ t₁ st ts fin m).take k = []
    ∨ (∃ j, j ≤ m ∧ (fullTrace r canon fk t₀ t₁ st ts fin m).take k = started r canon fk t₀ st ts fin j)
    ∨ (fullTrace r canon fk t₀ t₁ st ts fin m).take k = fullTrace r canon fk t₀ t₁ st ts fin m := by
  cases k with
  | zero => left; rfl
  | succ k =>
    right
    unfold fullTrace started
    simp only [List.cons_append, List.take_succ_cons]
    by_cases hk : k ≤ (sers r st ts fin (canon.take m)).length
    · left
      refine ⟨min k m, Nat.min_le_right _ _, ?_⟩
      rw [List.take_append_of_le_length hk]
      simp only [sers, List.map_take, List.take_take]
    · right
      rw [List.take_of_length_le]
      simp only [List.length_append, List.length_cons, List.length_nil]
      omega

theorem ssort_ne_nil {l : List String} (h : l ≠ []) : ssort l ≠ [] := by
  cases l with
  | nil => exact absurd rfl h
  | cons x xs =>
    intro hs
    have : x ∈ ssort (x :: xs) := mem_ssort.mpr (by simp)
    rw [hs] at this
    simp at this

/-- The verdict fields of a known run, in terms of the folded state. -/
theorem runVerdictOf_known (tbl : RunTable) (terminal : List String) (s : RunState) (hk : runKnown s = true) :
    let v := runVerdictOf tbl terminal s
    v.known = true
    ∧ v.status = (tbl.lookup (s.sawStart, s.sawEnd, !(ssort s.seen).isEmpty)).getD .invalid
    ∧ ("missing_pipeline_start" ∈ v.problems ↔ s.sawStart = false)
    ∧ ("missing_pipeline_end" ∈ v.problems ↔ s.sawEnd = false)
    ∧ v.missing = (if (ssort s.canon).isEmpty then [] else (ssort s.canon).filter (fun n => !(ssort s.seen).contains n))
    ∧ v.orphan = (if (ssort s.canon).isEmpty then [] else (ssort s.seen).filter (fun n => !(ssort s.canon).contains n)) := by
  simp only [runVerdictOf, hk, Bool.not_true, Bool.false_eq_true, if_false]
  refine ⟨trivial, trivial, ?_, ?_, trivial, trivial⟩
  · cases s.sawStart <;> cases s.sawEnd <;> cases startGtEnd s <;> simp
  · cases s.sawStart <;> cases s.sawEnd <;> cases startGtEnd s <;> simp

theorem lookup_of_ok_TT {tbl : RunTable} (h : runTableOK tbl = true) (n : Bool) :
    (tbl.lookup (true, true, n)).getD .invalid = .complete := by
  simp only [runTableOK, List.all_cons, List.all_nil, Bool.and_true, Bool.and_eq_true, beq_iff_eq] at h
  cases n <;> simp [h.1.1.1]
theorem lookup_of_ok_TF {tbl : RunTable} (h : runTableOK tbl = true) (n : Bool) :
    (tbl.lookup (true, false, n)).getD .invalid = .part := by
  simp only [runTableOK, List.all_cons, List.all_nil, Bool.and_true, Bool.and_eq_true, beq_iff_eq] at h
  cases n <;> simp [h.1.1.1]

/-- **C13 (prefix after the start edge).** With the `pipeline_start` and the SERs of the first `j`
    canonical nodes ingested (a crash anywhere before `pipeline_end`), the run is *partial*, exactly the
    end edge is named missing, the missing nodes are the canonical nodes without a SER, no orphans. -/
theorem prefix_started_verdict (tbl : RunTable) (hT : runTableOK tbl = true) (terminal : List String)
    (r : String) (canon : List String) (hne : canon ≠ []) (fk t₀ st ts fin) (j : Nat) :
    let v := runVerdict tbl terminal r (started r canon fk t₀ st ts fin j)
    v.known = true ∧ v.status = .part
    ∧ "missing_pipeline_end" ∈ v.problems ∧ "missing_pipeline_start" ∉ v.problems
    ∧ (∀ n, n ∈ v.missing ↔ n ∈ canon ∧ n ∉ canon.take j)
    ∧ v.orphan = [] := by
  have hS : (aggRun r (started r canon fk t₀ st ts fin j)).sawStart = true := by
    unfold aggRun started; rw [foldl_sawStart]; simp [isStart]
  have hE : (aggRun r (started r canon fk t₀ st ts fin j)).sawEnd = false := by
    unfold aggRun started; rw [foldl_sawEnd]
    simp only [List.any_cons, isEnd, Bool.false_or, sers_any_isEnd]
  have hseen : ∀ n, n ∈ (aggRun r (started r canon fk t₀ st ts fin j)).seen ↔ n ∈ canon.take j := by
    intro n
    unfold aggRun started; rw [foldl_seen_mem]
    simp only [List.filterMap_cons, serNode, sers_filterMap]
    simp
  have hcanon : (aggRun r (started r canon fk t₀ st ts fin j)).canon = canon := by
    unfold aggRun started
    rw [foldl_canon r canon]
    · simp [isStart]
    · intro c' fk' t' hmem
      rcases List.mem_cons.mp hmem with h | h
      · cases h; rfl
      · exact absurd h (sers_no_pStart r st ts fin _ c' fk' t')
  have hk : runKnown (aggRun r (started r canon fk t₀ st ts fin j)) = true := by simp [runKnown, hS]
  obtain ⟨v1, v2, v3, v4, v5, v6⟩ := runVerdictOf_known tbl terminal _ hk
  have hexp : (ssort canon).isEmpty = false := by
    cases h : ssort canon with
    | nil => exact absurd h (ssort_ne_nil hne)
    | cons _ _ => rfl
  refine ⟨v1, ?_, ?_, ?_, ?_, ?_⟩
  · show (runVerdictOf tbl terminal _).status = _
    rw [v2, hS, hE]; exact lookup_of_ok_TF hT _
  · exact v4.mpr hE
  · intro h; have := v3.mp h; rw [hS] at this; exact absurd this (by decide)
  · intro n
    show n ∈ (runVerdictOf tbl terminal _).missing ↔ _
    rw [v5, hcanon, hexp]
    simp only [Bool.false_eq_true, if_false, List.mem_filter, mem_ssort, Bool.not_eq_true', List.contains_eq_mem,
      decide_eq_false_iff_not, hseen]
  · show (runVerdictOf tbl terminal _).orphan = _
    rw [v6, hcanon, hexp]
    simp only [Bool.false_eq_true, if_false, List.filter_eq_nil_iff, mem_ssort, hseen, Bool.not_eq_true', List.contains_eq_mem,
      decide_eq_false_iff_not, Decidable.not_not]
    intro n hn
    exact List.mem_of_mem_take hn

/-- **C13 (whole trace).** With both lifecycle edges the run is *complete* (also when it failed after
    `m` nodes), no edge is named missing, missing nodes are the canonical nodes that never started. -/
theorem full_trace_verdict (tbl : RunTable) (hT : runTableOK tbl = true) (terminal : List String)
    (r : String) (canon : List String) (hne : canon ≠ []) (fk t₀ t₁ st ts fin) (m : Nat) :
    let v := runVerdict tbl terminal r (fullTrace r canon fk t₀ t₁ st ts fin m)
    v.known = true ∧ v.status = .complete
    ∧ "missing_pipeline_end" ∉ v.problems ∧ "missing_pipeline_start" ∉ v.problems
    ∧ (∀ n, n ∈ v.missing ↔ n ∈ canon ∧ n ∉ canon.take m)
    ∧ v.orphan = [] := by
  have hS : (aggRun r (fullTrace r canon fk t₀ t₁ st ts fin m)).sawStart = true := by
    unfold aggRun fullTrace started; rw [foldl_sawStart]; simp [isStart]
  have hE : (aggRun r (fullTrace r canon fk t₀ t₁ st ts fin m)).sawEnd = true := by
    unfold aggRun fullTrace started; rw [foldl_sawEnd]; simp [isEnd]
  have hseen : ∀ n, n ∈ (aggRun r (fullTrace r canon fk t₀ t₁ st ts fin m)).seen ↔ n ∈ canon.take m := by
    intro n
    unfold aggRun fullTrace started; rw [foldl_seen_mem]
    simp only [List.cons_append, List.filterMap_cons, List.filterMap_append, serNode, sers_filterMap, List.filterMap_nil,
      List.append_nil]
    simp
  have hcanon : (aggRun r (fullTrace r canon fk t₀ t₁ st ts fin m)).canon = canon := by
    unfold aggRun fullTrace started
    rw [foldl_canon r canon]
    · simp [isStart]
    · intro c' fk' t' hmem
      simp only [List.cons_append, List.mem_cons, List.mem_append, List.mem_nil_iff, or_false] at hmem
      rcases hmem with h | h | h
      · cases h; rfl
      · exact absurd h (sers_no_pStart r st ts fin _ c' fk' t')
      · cases h
  have hk : runKnown (aggRun r (fullTrace r canon fk t₀ t₁ st ts fin m)) = true := by simp [runKnown, hS]
  obtain ⟨v1, v2, v3, v4, v5, v6⟩ := runVerdictOf_known tbl terminal _ hk
  have hexp : (ssort canon).isEmpty = false := by
    cases h : ssort canon with
    | nil => exact absurd h (ssort_ne_nil hne)
    | cons _ _ => rfl
  refine ⟨v1, ?_, ?_, ?_, ?_, ?_⟩
  · show (runVerdictOf tbl terminal _).status = _
    rw [v2, hS, hE]; exact lookup_of_ok_TT hT _
  · intro h; have := v4.mp h; rw [hE] at this; exact absurd this (by decide)
  · intro h; have := v3.mp h; rw [hS] at this; exact absurd this (by decide)
  · intro n
    show n ∈ (runVerdictOf tbl terminal _).missing ↔ _
    rw [v5, hcanon, hexp]
    simp only [Bool.false_eq_true, if_false, List.mem_filter, mem_ssort, Bool.not_eq_true', List.contains_eq_mem,
      decide_eq_false_iff_not, hseen]
  · show (runVerdictOf tbl terminal _).orphan = _
    rw [v6, hcanon, hexp]
    simp only [Bool.false_eq_true, if_false, List.filter_eq_nil_iff, mem_ssort, hseen, Bool.not_eq_true', List.contains_eq_mem,
      decide_eq_false_iff_not, Decidable.not_not]
    intro n hn
    exact List.mem_of_mem_take hn

/-- Nothing ingested: the run is unknown. -/
theorem empty_prefix_verdict (tbl : RunTable) (terminal : List String) (r : String) :
    (runVerdict tbl terminal r []).known = false := rfl

/-- A runtime trace satisfies the compatibility hypothesis of the order-independence theorem
    whenever its canonical node ids are distinct (C05). -/
theorem fullTrace_compat (r canon fk t₀ t₁ st ts fin) (m : Nat) (r' : String) :
    ∀ a ∈ fullTrace r canon fk t₀ t₁ st ts fin m, ∀ b ∈ fullTrace r canon fk t₀ t₁ st ts fin m, Compat r' a b := by
  intro a ha b hb
  simp only [fullTrace, started, sers, List.cons_append, List.mem_cons, List.mem_append, List.mem_map, List.mem_nil_iff,
    or_false] at ha hb
  rcases ha with rfl | ⟨n, _, rfl⟩ | rfl <;> rcases hb with rfl | ⟨n', _, rfl⟩ | rfl <;> simp only [Compat] <;>
    first
    | trivial
    | (intros; trivial)
    | (intros; rfl)
    | (intro _ _ h; rw [h])

/-! ## 4. Non-vacuity -/

def demoTable : RunTable :=
  [((true, true, true), .complete), ((true, true, false), .complete), ((true, false, true), .part),
   ((true, false, false), .part), ((false, true, true), .part), ((false, true, false), .part),
   ((false, false, true), .invalid), ((false, false, false), .invalid)]
example : runTableOK demoTable = true := by decide
/-- With last-writer-wins statuses, two *different* SERs of one node do make order matter — the
    compatibility hypothesis is needed, and the runtime (one SER per node) meets it. -/
example :
    runVerdict demoTable ["succeeded"] "r" [.ser "r" "n" "running" none none, .ser "r" "n" "succeeded" none none]
      ≠ runVerdict demoTable ["succeeded"] "r" [.ser "r" "n" "succeeded" none none, .ser "r" "n" "running" none none] := by
  decide

/-! ## Locality: a verdict depends only on the records of its own run / its own launch attempt

A retried launch puts two attempts under one launch id into one record set; records of other runs, other launches and
other attempts of the same launch id never change the verdict of `(launch, attempt)`. -/

/-- Does the record belong to run `r`? -/
def aboutRun (r : String) : Rec → Bool
  | .pStart r' _ _ _ => r' == r
  | .pEnd r' _ => r' == r
  | .ser r' _ _ _ _ => r' == r
  | _ => false

/-- Does the record belong to launch attempt `k` (its lifecycle records and the starts of its runs)? -/
def aboutLaunch (k : String × Nat) : Rec → Bool
  | .rsStart l a => (l, a) == k
  | .rsEnd l a => (l, a) == k
  | .pStart _ _ (some fk) _ => fk == k
  | _ => false

theorem stepRun_ignores (r : String) (s : RunState) (a : Rec) (h : aboutRun r a = false) : stepRun r s a = s := by
  cases a <;> simp_all [stepRun, aboutRun]

theorem foldl_stepRun_ignores (r : String) (extra : List Rec) (h : ∀ a ∈ extra, aboutRun r a = false) (s : RunState) :
    extra.foldl (stepRun r) s = s := by
  induction extra generalizing s with
  | nil => rfl
  | cons a rest ih =>
    simp only [List.foldl_cons]
    rw [stepRun_ignores r s a (h a (by simp))]
    exact ih (fun b hb => h b (List.mem_cons_of_mem _ hb)) s

/-- **C13 (locality, runs).** Records that do not belong to run `r` do not change its verdict. -/
theorem run_verdict_local (tbl : RunTable) (terminal : List String) (r : String) (rs extra : List Rec)
    (h : ∀ a ∈ extra, aboutRun r a = false) :
    runVerdict tbl terminal r (rs ++ extra) = runVerdict tbl terminal r rs := by
  simp only [runVerdict, aggRun, List.foldl_append]
  rw [foldl_stepRun_ignores r extra h]

theorem stepLaunch_ignores (k : String × Nat) (s : LaunchState) (a : Rec) (h : aboutLaunch k a = false) : stepLaunch k s a = s := by
  cases a with
  | rsStart l at_ => simp_all [stepLaunch, aboutLaunch]
  | rsEnd l at_ => simp_all [stepLaunch, aboutLaunch]
  | pStart r c fk t =>
    cases fk with
    | none => simp [stepLaunch]
    | some fk => simp_all [stepLaunch, aboutLaunch]
  | pEnd r t => simp [stepLaunch]
  | ser r n st t f => simp [stepLaunch]
  | other => simp [stepLaunch]

theorem foldl_stepLaunch_ignores (k : String × Nat) (extra : List Rec) (h : ∀ a ∈ extra, aboutLaunch k a = false) (s : LaunchState) :
    extra.foldl (stepLaunch k) s = s := by
  induction extra generalizing s with
  | nil => rfl
  | cons a rest ih =>
    simp only [List.foldl_cons]
    rw [stepLaunch_ignores k s a (h a (by simp))]
    exact ih (fun b hb => h b (List.mem_cons_of_mem _ hb)) s

/-- **C13 (locality, launches).** Records that belong neither to launch attempt `k` nor to one of its runs — other
    runs, other launches, *other attempts of the same launch id* — do not change its verdict, roll-up counts included. -/
theorem launch_verdict_local (rtbl : RunTable) (ltbl : LaunchTable) (terminal : List String) (k : String × Nat)
    (rs extra : List Rec)
    (h1 : ∀ a ∈ extra, aboutLaunch k a = false)
    (h2 : ∀ r ∈ (aggLaunch k rs).runs, ∀ a ∈ extra, aboutRun r a = false) :
    launchVerdict rtbl ltbl terminal k (rs ++ extra) = launchVerdict rtbl ltbl terminal k rs := by
  have hagg : aggLaunch k (rs ++ extra) = aggLaunch k rs := by
    simp only [aggLaunch, List.foldl_append]
    exact foldl_stepLaunch_ignores k extra h1 _
  have hsts : (ssort (aggLaunch k rs).runs).map (fun r => (runVerdict rtbl terminal r (rs ++ extra)).status)
      = (ssort (aggLaunch k rs).runs).map (fun r => (runVerdict rtbl terminal r rs).status) := by
    apply List.map_congr_left
    intro r hr
    rw [run_verdict_local rtbl terminal r rs extra (h2 r (mem_ssort.mp hr))]
  simp only [launchVerdict, hagg, hsts]

/-- Non-vacuity: a complete second attempt keeps its verdict when the records of a crashed first attempt under the same
    launch id are added. -/
example :
    let a2 := [Rec.rsStart "L" 2, .pStart "r2" ["n"] (some ("L", 2)) none, .ser "r2" "n" "succeeded" none none, .pEnd "r2" none, .rsEnd "L" 2]
    let a1 := [Rec.rsStart "L" 1, .pStart "r1" ["n"] (some ("L", 1)) none]
    (∀ a ∈ a1, aboutLaunch ("L", 2) a = false) ∧ (∀ r ∈ (aggLaunch ("L", 2) a2).runs, ∀ a ∈ a1, aboutRun r a = false)
    ∧ (aggLaunch ("L", 2) a2).runs = ["r2"] := by
  decide

end SemantivaModel.Aggregator
