import SemantivaModel.Properties.C01
import SemantivaModel.Model.Inspect
/-!
# C02 — static inspection is sound: accepted configurations do not fail on flow at run time

`analysis_sound`: for pipelines of any length, if the reference analysis accepts and the initial
context holds every key it lists as required, then no node is rejected at construction and no node
fails with an unresolved parameter, a missing/deleted key or the type gate.  The real inspection is
tied to the reference analysis by the correspondence run (`props/c02.py`).
-/
namespace SemantivaModel.Inspect
open SemantivaModel.Exec

/-- The failures C02 is about. -/
def isFlowC02 : Err → Bool
  | .unresolved _ | .missingKey _ | .typeGate | .unknownParam _ | .config _ => true
  | _ => false

/-! ## Context presence lemmas -/

theorem has_iff_get (c : Ctx) (k : String) : c.has k = (c.get k).isSome := rfl

theorem has_set (c : Ctx) (k k' : String) (v : Val) : (c.set k v).has k' = (k' == k || c.has k') := by
  by_cases h : k' = k
  · subst h; simp [has_iff_get, Ctx.get_set_self]
  · have : (k' == k) = false := by simpa using h
    simp [has_iff_get, Ctx.get_set_ne _ _ _ _ h, this]

theorem has_erase (c : Ctx) (k k' : String) : (c.erase k).has k' = (k' != k && c.has k') := by
  by_cases h : k' = k
  · subst h; simp [has_iff_get, Ctx.get_erase_self]
  · have : (k' != k) = true := by simpa using h
    simp [has_iff_get, Ctx.get_erase_ne _ _ _ h, this]

theorem has_applyWrites_mono (c : Ctx) (ws : List (String × Val)) (k : String) (h : c.has k = true) :
    (applyWrites c ws).has k = true := by
  induction ws generalizing c with
  | nil => exact h
  | cons kv rest ih =>
    simp only [applyWrites, List.foldl_cons]
    exact ih _ (by rw [has_set]; simp [h])

theorem has_applyWrites_mem (c : Ctx) (ws : List (String × Val)) (k : String) (h : k ∈ ws.map (·.1)) :
    (applyWrites c ws).has k = true := by
  induction ws generalizing c with
  | nil => simp at h
  | cons kv rest ih =>
    simp only [applyWrites, List.foldl_cons]
    simp only [List.map_cons, List.mem_cons] at h
    rcases h with h | h
    · exact has_applyWrites_mono _ rest k (by rw [has_set, h]; simp)
    · exact ih _ h

/-! ## Parameter resolution succeeds when the value is available somewhere -/

theorem resolve_ok (tbl : ResolveTable) (hT : precedenceOK tbl = true) (n : Node) (c : Ctx) (p : PSig)
    (h : (n.config.lookup p.name).isSome = true ∨ c.has p.name = true ∨ p.dflt.isSome = true) :
    ∃ v, resolve tbl n c p = .ok v := by
  have hp := resolve_precedence tbl hT n c p
  cases hcfg : n.config.lookup p.name with
  | some v => exact ⟨v, hp.1 v hcfg⟩
  | none =>
    cases hctx : c.get p.name with
    | some v => exact ⟨v, hp.2.1 hcfg v hctx⟩
    | none =>
      cases hd : p.dflt with
      | some v => exact ⟨v, hp.2.2.1 hcfg hctx v hd⟩
      | none =>
        exfalso
        rcases h with h | h | h
        · rw [hcfg] at h; cases h
        · rw [has_iff_get, hctx] at h; cases h
        · rw [hd] at h; cases h

theorem resolveAll_ok (tbl : ResolveTable) (hT : precedenceOK tbl = true) (n : Node) (c : Ctx) (ps : List PSig)
    (h : ∀ p ∈ ps, (n.config.lookup p.name).isSome = true ∨ c.has p.name = true ∨ p.dflt.isSome = true) :
    ∃ vs, resolveAll tbl n c ps = .ok vs := by
  induction ps with
  | nil => exact ⟨[], rfl⟩
  | cons p ps ih =>
    obtain ⟨v, hv⟩ := resolve_ok tbl hT n c p (h p (by simp))
    obtain ⟨vs, hvs⟩ := ih (fun q hq => h q (List.mem_cons_of_mem _ hq))
    exact ⟨v :: vs, by simp [resolveAll, hv, hvs]⟩

/-! ## The abstraction relation and the one-node soundness lemma -/

structure Abs (c₀ : Ctx) (st : AState) (s : Data × Ctx) : Prop where
  ty : s.1.ty = st.dtype
  known : ∀ k, st.known.contains k = true → s.2.has k = true
  initial : ∀ k, c₀.has k = true → st.gone.contains k = false → s.2.has k = true

/-- What a successful step does to key presence and to the data type. -/
structure Effect (n : Node) (s s' : Data × Ctx) : Prop where
  ty : s'.1.ty = if producesData n then n.outT else s.1.ty
  created : ∀ k, (createdOf n).contains k = true → (suppressedOf n).contains k = false → s'.2.has k = true
  kept : ∀ k, s.2.has k = true → (suppressedOf n).contains k = false → s'.2.has k = true

theorem step_effect (tbl : ResolveTable) (n : Node) (s s' : Data × Ctx) (hwf : nodeWF n = true)
    (hc : construct n = none) (h : step tbl n s = .ok s') : Effect n s s' := by
  obtain ⟨d, c⟩ := s
  obtain ⟨d', c'⟩ := s'
  cases hkind : n.kind with
  | rename src dst =>
    simp only [step, hkind] at h
    split at h
    · cases h
    · split at h
      · injection h with h; injection h with h1 h2; subst h1; subst h2
        refine ⟨by simp [producesData, hkind], ?_, ?_⟩
        · intro k hk hs
          simp only [createdOf, suppressedOf, hkind, List.contains_cons, List.contains_nil, Bool.or_false, beq_iff_eq] at hk hs
          simp only [has_erase, has_set, Bool.and_eq_true, bne_iff_ne, ne_eq, Bool.or_eq_true, beq_iff_eq]
          exact ⟨by simpa using hs, Or.inl hk⟩
        · intro k hk hs
          simp only [suppressedOf, hkind, List.contains_cons, List.contains_nil, Bool.or_false] at hs
          simp only [has_erase, has_set, Bool.and_eq_true, bne_iff_ne, ne_eq, Bool.or_eq_true, beq_iff_eq]
          exact ⟨by simpa using hs, Or.inr hk⟩
      · cases h
  | delete key =>
    simp only [step, hkind] at h
    split at h
    · cases h
    · split at h
      · injection h with h; injection h with h1 h2; subst h1; subst h2
        refine ⟨by simp [producesData, hkind], ?_, ?_⟩
        · intro k hk; simp [createdOf, hkind] at hk
        · intro k hk hs
          simp only [suppressedOf, hkind, List.contains_cons, List.contains_nil, Bool.or_false] at hs
          simp only [has_erase, Bool.and_eq_true, bne_iff_ne, ne_eq]
          exact ⟨by simpa using hs, hk⟩
      · cases h
  | template parts out =>
    simp only [step, hkind] at h
    split at h
    · cases h
    · injection h with h; injection h with h1 h2; subst h1; subst h2
      refine ⟨by simp [producesData, hkind], ?_, ?_⟩
      · intro k hk _
        simp only [createdOf, hkind, List.contains_cons, List.contains_nil, Bool.or_false, beq_iff_eq] at hk
        simp [has_set, hk]
      · intro k hk _; simp [has_set, hk]
  | dataSource =>
    have hp := source_produces tbl n d d' c c' hkind h
    refine ⟨by simp [producesData, hkind, hp.1], ?_, ?_⟩
    · intro k hk; simp [createdOf, hkind] at hk
    · intro k hk _; rw [hp.2.1]; exact hk
  | payloadSource key ktag =>
    simp only [step, hkind] at h
    split at h
    · cases h
    · split at h
      · cases h
      · split at h
        · cases h
        · split at h
          · cases h
          · injection h with h; injection h with h1 h2; subst h1; subst h2
            refine ⟨by simp [producesData, hkind, Data.ty], ?_, ?_⟩
            · intro k hk _
              simp only [createdOf, hkind, List.contains_cons, List.contains_nil, Bool.or_false, beq_iff_eq] at hk
              simp [has_set, hk]
            · intro k hk _; simp [has_set, hk]
  | operation =>
    have hfr := operation_frames_context tbl n d d' c c' hkind h
    refine ⟨by simp [producesData, hkind, hfr.1], ?_, ?_⟩
    · intro k hk _
      simp only [createdOf, hkind] at hk
      -- a declared key is written: by well-formedness the body is `termWrite _ k _` and the node does not slice
      simp only [nodeWF, hkind, Bool.or_eq_true, List.isEmpty_iff, Bool.and_eq_true, Bool.not_eq_true'] at hwf
      rcases hwf with hwf | ⟨hsl, hbeh⟩
      · rw [hwf] at hk; simp at hk
      · cases hb : n.beh with
        | termWrite tag key wtag =>
          rw [hb] at hbeh
          have hdecl : n.declared = [key] := by simpa using hbeh
          rw [hdecl] at hk
          have hkk : k = key := by simpa using hk
          subst hkk
          simp only [step, hkind, hsl, hb] at h
          split at h
          · cases h
          · split at h
            · cases h
            · simp only [Bool.false_eq_true, if_false, applyBeh, hdecl, List.contains_cons, beq_self_eq_true, Bool.true_or,
                if_true] at h
              injection h with h; injection h with _ h2; subst h2
              exact has_applyWrites_mem _ _ _ (by simp)
        | term _ => rw [hb] at hbeh; cases hbeh
        | merge _ => rw [hb] at hbeh; cases hbeh
        | collOf _ _ => rw [hb] at hbeh; cases hbeh
        | fail _ => rw [hb] at hbeh; cases hbeh
        | echo => rw [hb] at hbeh; cases hbeh
    · intro k hk _
      -- operations never remove a key: either the key is declared (then it is (re)written or kept) or framed
      cases hd : n.declared.contains k with
      | false => rw [has_iff_get, hfr.2 k hd, ← has_iff_get]; exact hk
      | true =>
        simp only [step, hkind] at h
        split at h
        · cases h
        · split at h
          · cases h
          · cases hsl : n.sliced with
            | true =>
              simp only [hsl, if_true] at h
              cases d with
              | coll t xs =>
                simp only at h
                cases hm : mapBeh n.beh n.declared _ xs with
                | error e => rw [hm] at h; cases h
                | ok r => obtain ⟨ys, ws⟩ := r; rw [hm] at h; injection h with h; injection h with _ h2; subst h2
                          exact has_applyWrites_mono _ _ _ hk
              | nodata => simp at h
              | item t v => simp at h
            | false =>
              simp only [hsl, Bool.false_eq_true, if_false] at h
              cases ha : applyBeh n.beh n.declared (dataVal d) _ with
              | error e => rw [ha] at h; cases h
              | ok r => obtain ⟨v, ws⟩ := r; rw [ha] at h; injection h with h; injection h with _ h2; subst h2
                        exact has_applyWrites_mono _ _ _ hk
  | probe =>
    -- construction guarantees a context key
    have hck : ∃ ck, n.contextKey = some ck := by
      cases hcx : n.contextKey with
      | some ck => exact ⟨ck, rfl⟩
      | none => simp [construct, hkind, Kind.isCtxProc, hcx] at hc
    obtain ⟨ck, hck⟩ := hck
    simp only [step, hkind] at h
    split at h
    · cases h
    · split at h
      · cases h
      · cases hsl : n.sliced with
        | true =>
          simp only [hsl, if_true, hck, Option.getD_some] at h
          cases d with
          | coll t xs =>
            simp only at h
            split at h
            · cases h
            · injection h with h; injection h with h1 h2; subst h1; subst h2
              refine ⟨by simp [producesData, hkind], ?_, ?_⟩
              · intro k hk _
                simp only [createdOf, hkind, hck, Option.toList, List.contains_cons, List.contains_nil, Bool.or_false, beq_iff_eq] at hk
                simp [has_set, hk]
              · intro k hk _; simp [has_set, hk]
          | nodata => simp at h
          | item t v => simp at h
        | false =>
          simp only [hsl, Bool.false_eq_true, if_false, hck, Option.getD_some] at h
          split at h
          · cases h
          · injection h with h; injection h with h1 h2; subst h1; subst h2
            refine ⟨by simp [producesData, hkind], ?_, ?_⟩
            · intro k hk _
              simp only [createdOf, hkind, hck, Option.toList, List.contains_cons, List.contains_nil, Bool.or_false, beq_iff_eq] at hk
              simp [has_set, hk]
            · intro k hk _; simp [has_set, hk]
  | dataSink =>
    have hp := sink_passes_through tbl n d d' c c' (Or.inl hkind) h
    refine ⟨by simp [producesData, hkind, hp.1], ?_, ?_⟩
    · intro k hk; simp [createdOf, hkind] at hk
    · intro k hk _; rw [hp.2]; exact hk
  | payloadSink =>
    have hp := sink_passes_through tbl n d d' c c' (Or.inr hkind) h
    refine ⟨by simp [producesData, hkind, hp.1], ?_, ?_⟩
    · intro k hk; simp [createdOf, hkind] at hk
    · intro k hk _; rw [hp.2]; exact hk

theorem applyBeh_error_nonflow (b : Beh) (declared : List String) (v : Option Val) (ps : List Val) (e : Err)
    (h : applyBeh b declared v ps = .error e) : isFlowC02 e = false := by
  cases b with
  | term tag => simp [applyBeh] at h
  | termWrite tag key wtag =>
    simp only [applyBeh] at h
    split at h
    · cases h
    · injection h with h; subst h; rfl
  | merge tag =>
    simp only [applyBeh] at h
    split at h
    · cases h
    · injection h with h; subst h; rfl
  | collOf tag n => simp [applyBeh] at h
  | fail cls => simp only [applyBeh] at h; injection h with h; subst h; rfl
  | echo => simp [applyBeh] at h

theorem mapBeh_error_nonflow (b : Beh) (declared : List String) (ps : List Val) :
    ∀ (xs : List Val) (e : Err), mapBeh b declared ps xs = .error e → isFlowC02 e = false
  | [], e, h => by simp [mapBeh] at h
  | x :: xs, e, h => by
    simp only [mapBeh] at h
    split at h
    · rename_i e' he
      injection h with h; subst h
      exact applyBeh_error_nonflow b declared _ ps _ he
    · split at h
      · rename_i e' he
        injection h with h; subst h
        exact mapBeh_error_nonflow b declared ps xs _ he
      · cases h

/-- Every key the analysis counted on is present: produced earlier, or external and never deleted. -/
theorem need_available {c₀ : Ctx} {st : AState} {s : Data × Ctx} (habs : Abs c₀ st s) (need : List String)
    (hgone : need.find? (fun k => st.gone.contains k) = none) (hreq : ∀ k ∈ need, c₀.has k = true)
    (k : String) (hk : k ∈ need ∨ st.known.contains k = true) : s.2.has k = true := by
  rcases hk with hk | hk
  · have := List.find?_eq_none.mp hgone k hk
    exact habs.initial k (hreq k hk) (by simpa using this)
  · exact habs.known k hk

theorem param_available (n : Node) (st : AState) (p : PSig) (hp : p ∈ n.params) :
    (n.config.lookup p.name).isSome = true ∨ (p.name ∈ neededKeys n st ∨ st.known.contains p.name = true)
      ∨ p.dflt.isSome = true := by
  cases hcfg : (n.config.lookup p.name).isSome with
  | true => exact Or.inl rfl
  | false =>
    cases hkn : st.known.contains p.name with
    | true => exact Or.inr (Or.inl (Or.inr rfl))
    | false =>
      cases hd : p.dflt.isSome with
      | true => exact Or.inr (Or.inr rfl)
      | false =>
        refine Or.inr (Or.inl (Or.inl ?_))
        simp only [neededKeys, List.mem_append, List.mem_map, List.mem_filter]
        left
        refine ⟨p, ⟨hp, ?_⟩, rfl⟩
        have h1 : (n.config.lookup p.name).isNone = true := by
          cases h : n.config.lookup p.name with
          | none => rfl
          | some v => rw [h] at hcfg; cases hcfg
        have h3 : p.dflt.isNone = true := by
          cases h : p.dflt with
          | none => rfl
          | some v => rw [h] at hd; cases hd
        simp only [h1, hkn, h3, Bool.not_false, Bool.and_self]

theorem must_available (n : Node) (st : AState) (k : String) (hk : k ∈ mustBeInContext n) :
    k ∈ neededKeys n st ∨ st.known.contains k = true := by
  cases hkn : st.known.contains k with
  | true => exact Or.inr rfl
  | false =>
    left
    simp only [neededKeys, List.mem_append, List.mem_filter]
    right
    exact ⟨hk, by simp only [hkn, Bool.not_false]⟩

/-- **One node.** If the reference analysis lets node `n` through in state `st`, the concrete state is
    abstracted by `st`, and the initial context holds the keys the analysis asked for, then the node
    is constructible, it cannot fail on flow, and the state it produces is abstracted by the
    analysis' next state. -/
theorem stepA_sound (tbl : ResolveTable) (hT : precedenceOK tbl = true) (n : Node) (hwf : nodeWF n = true)
    (c₀ : Ctx) (st st' : AState) (need : List String) (s : Data × Ctx)
    (hA : stepA n st = .ok (need, st')) (habs : Abs c₀ st s) (hreq : ∀ k ∈ need, c₀.has k = true) :
    construct n = none
    ∧ (∀ e, step tbl n s = .error e → isFlowC02 e = false)
    ∧ (∀ s', step tbl n s = .ok s' → Abs c₀ st' s') := by
  -- unpack the analysis step
  unfold stepA at hA
  cases hc : construct n with
  | some e => rw [hc] at hA; cases hA
  | none =>
    rw [hc] at hA
    simp only at hA
    split at hA
    · cases hA
    · rename_i hgate
      split at hA
      · cases hA
      · rename_i hgone
        injection hA with hA; injection hA with hneed hst
        subst hneed
        have havail := need_available habs _ hgone hreq
        have hparams : ∀ p ∈ n.params,
            (n.config.lookup p.name).isSome = true ∨ s.2.has p.name = true ∨ p.dflt.isSome = true := by
          intro p hp
          rcases param_available n st p hp with h | h | h
          · exact Or.inl h
          · exact Or.inr (Or.inl (havail _ h))
          · exact Or.inr (Or.inr h)
        have hmust : ∀ k ∈ mustBeInContext n, s.2.has k = true := fun k hk => havail _ (must_available n st k hk)
        refine ⟨rfl, ?_, ?_⟩
        · -- no flow error
          obtain ⟨d, c⟩ := s
          intro e he
          cases hkind : n.kind with
          | rename src dst =>
            have hsrc : c.has src = true := hmust src (by simp [mustBeInContext, suppressedOf, hkind])
            obtain ⟨v, hv⟩ := resolve_ok tbl hT n c ⟨src, none⟩ (Or.inr (Or.inl hsrc))
            simp only [step, hkind, hv, has_set, hsrc, Bool.or_true, if_true] at he
            cases he
          | delete key =>
            have hsrc : c.has key = true := hmust key (by simp [mustBeInContext, suppressedOf, hkind])
            obtain ⟨v, hv⟩ := resolve_ok tbl hT n c ⟨key, none⟩ (Or.inr (Or.inl hsrc))
            simp only [step, hkind, hv, hsrc, if_true] at he
            cases he
          | template parts out =>
            obtain ⟨vs, hvs⟩ := resolveAll_ok tbl hT n c n.params hparams
            simp only [step, hkind, hvs] at he
            cases he
          | dataSource =>
            have hg : typeAccepts n.inT d.ty = true := by
              have := habs.ty; simp only at this; rw [this]
              simpa [hkind, Kind.isCtxProc] using hgate
            obtain ⟨vs, hvs⟩ := resolveAll_ok tbl hT n c n.params hparams
            simp only [step, hkind, hg, Bool.not_true, Bool.false_eq_true, if_false, hvs] at he
            split at he
            · rename_i e' he'
              injection he with he; subst he
              exact applyBeh_error_nonflow _ _ _ _ _ he'
            · cases he
          | payloadSource key ktag =>
            have hg : typeAccepts n.inT d.ty = true := by
              have := habs.ty; simp only at this; rw [this]
              simpa [hkind, Kind.isCtxProc] using hgate
            obtain ⟨vs, hvs⟩ := resolveAll_ok tbl hT n c n.params hparams
            simp only [step, hkind, hg, Bool.not_true, Bool.false_eq_true, if_false, hvs] at he
            split at he
            · rename_i e' he'
              injection he with he; subst he
              exact applyBeh_error_nonflow _ _ _ _ _ he'
            · split at he
              · injection he with he; subst he; rfl
              · cases he
          | operation =>
            have hg : typeAccepts n.inT d.ty = true := by
              have := habs.ty; simp only at this; rw [this]
              simpa [hkind, Kind.isCtxProc] using hgate
            obtain ⟨vs, hvs⟩ := resolveAll_ok tbl hT n c n.params hparams
            simp only [step, hkind, hg, Bool.not_true, Bool.false_eq_true, if_false, hvs] at he
            split at he
            · split at he
              · split at he
                · rename_i e' he'
                  injection he with he; subst he
                  exact mapBeh_error_nonflow _ _ _ _ _ he'
                · cases he
              · injection he with he; subst he; rfl
            · split at he
              · rename_i e' he'
                injection he with he; subst he
                exact applyBeh_error_nonflow _ _ _ _ _ he'
              · cases he
          | probe =>
            have hg : typeAccepts n.inT d.ty = true := by
              have := habs.ty; simp only at this; rw [this]
              simpa [hkind, Kind.isCtxProc] using hgate
            obtain ⟨vs, hvs⟩ := resolveAll_ok tbl hT n c n.params hparams
            simp only [step, hkind, hg, Bool.not_true, Bool.false_eq_true, if_false, hvs] at he
            split at he
            · split at he
              · split at he
                · rename_i e' he'
                  injection he with he; subst he
                  exact mapBeh_error_nonflow _ _ _ _ _ he'
                · cases he
              · injection he with he; subst he; rfl
            · split at he
              · rename_i e' he'
                injection he with he; subst he
                exact applyBeh_error_nonflow _ _ _ _ _ he'
              · cases he
          | dataSink =>
            have hg : typeAccepts n.inT d.ty = true := by
              have := habs.ty; simp only at this; rw [this]
              simpa [hkind, Kind.isCtxProc] using hgate
            obtain ⟨vs, hvs⟩ := resolveAll_ok tbl hT n c n.params hparams
            simp only [step, hkind, hg, Bool.not_true, Bool.false_eq_true, if_false, hvs] at he
            cases he
          | payloadSink =>
            have hg : typeAccepts n.inT d.ty = true := by
              have := habs.ty; simp only at this; rw [this]
              simpa [hkind, Kind.isCtxProc] using hgate
            obtain ⟨vs, hvs⟩ := resolveAll_ok tbl hT n c n.params hparams
            simp only [step, hkind, hg, Bool.not_true, Bool.false_eq_true, if_false, hvs] at he
            cases he
        · -- the abstraction is preserved
          intro s' hs'
          have heff := step_effect tbl n s s' hwf hc hs'
          subst hst
          refine ⟨?_, ?_, ?_⟩
          · simp only
            rw [heff.ty, habs.ty]
          · intro k hk
            simp only [List.contains_eq_mem, List.mem_filter, List.mem_append, decide_eq_true_eq, Bool.not_eq_true',
              decide_eq_false_iff_not, Bool.decide_and, Bool.and_eq_true] at hk
            obtain ⟨hk1, hk2⟩ := hk
            have hs : (suppressedOf n).contains k = false := by simpa using hk2
            rcases hk1 with hk1 | hk1
            · exact heff.kept k (habs.known k (by simpa using hk1)) hs
            · exact heff.created k (by simpa using hk1) hs
          · intro k hk0 hg
            simp only [List.contains_eq_mem, List.mem_append, List.mem_filter, decide_eq_false_iff_not, not_or, not_and,
              Bool.not_eq_true', decide_eq_true_eq, Bool.decide_or, Bool.or_eq_false_iff] at hg
            obtain ⟨hg1, hg2⟩ := hg
            have hs : (suppressedOf n).contains k = false := by simpa using hg2
            by_cases hcr : k ∈ createdOf n
            · exact heff.created k (by simpa using hcr) hs
            · have : st.gone.contains k = false := by
                cases hgk : st.gone.contains k with
                | false => rfl
                | true =>
                  exfalso
                  have := hg1 (by simpa using hgk)
                  simp at this
                  exact hcr this
              exact heff.kept k (habs.initial k hk0 this) hs

/-! ## Whole pipelines -/

/-- Acceptance by the analysis implies that every node passes the construction-time checks. -/
theorem constructAll_of_analyse : ∀ (ns : List Node) (i : Nat) (st : AState) (req : List String),
    analyseFrom ns i st = .ok req → constructAll ns i = none
  | [], _, _, _, _ => rfl
  | n :: ns, i, st, req, hA => by
    simp only [analyseFrom] at hA
    split at hA
    · cases hA
    · rename_i need st' hstep
      split at hA
      · cases hA
      · rename_i rest hrest
        have hc : construct n = none := by
          unfold stepA at hstep
          cases hc : construct n with
          | none => rfl
          | some e => rw [hc] at hstep; cases hstep
        simp only [constructAll, hc]
        exact constructAll_of_analyse ns (i + 1) st' rest hrest

theorem analyseFrom_sound (tbl : ResolveTable) (hT : precedenceOK tbl = true) (c₀ : Ctx) :
    ∀ (ns : List Node) (i : Nat) (st : AState) (req : List String) (s : Data × Ctx),
      (∀ n ∈ ns, nodeWF n = true) →
      analyseFrom ns i st = .ok req → Abs c₀ st s → (∀ k ∈ req, c₀.has k = true) →
      constructAll ns i = none
      ∧ ∀ j e, execFrom tbl ns i s = .error (j, e) → isFlowC02 e = false
  | [], i, st, req, s, _, _, _, _ => ⟨rfl, by intro j e h; simp [execFrom] at h⟩
  | n :: ns, i, st, req, s, hwf, hA, habs, hreq => by
    simp only [analyseFrom] at hA
    split at hA
    · cases hA
    · rename_i need st' hstep
      split at hA
      · cases hA
      · rename_i rest hrest
        injection hA with hA; subst hA
        have h1 := stepA_sound tbl hT n (hwf n (by simp)) c₀ st st' need s hstep habs
          (fun k hk => hreq k (List.mem_append_left _ hk))
        refine ⟨?_, ?_⟩
        · simp only [constructAll, h1.1]
          cases hs : step tbl n s with
          | error e =>
            -- the construction checks of the remaining nodes are static
            exact constructAll_of_analyse ns (i + 1) st' rest hrest
          | ok s' =>
            exact (analyseFrom_sound tbl hT c₀ ns (i + 1) st' rest s' (fun m hm => hwf m (List.mem_cons_of_mem _ hm)) hrest
              (h1.2.2 s' hs) (fun k hk => hreq k (List.mem_append_right _ hk))).1
        · intro j e he
          simp only [execFrom] at he
          cases hs : step tbl n s with
          | error e' =>
            rw [hs] at he
            simp only at he
            injection he with he; injection he with _ h2; subst h2
            exact h1.2.1 e' hs
          | ok s' =>
            rw [hs] at he
            simp only at he
            exact (analyseFrom_sound tbl hT c₀ ns (i + 1) st' rest s' (fun m hm => hwf m (List.mem_cons_of_mem _ hm)) hrest
              (h1.2.2 s' hs) (fun k hk => hreq k (List.mem_append_right _ hk))).2 j e he

/-- **C02 (soundness).** If the reference analysis accepts a pipeline (of any length) with external
    requirements `req`, the library is well-formed, the initial data has the type the analysis started
    from and the initial context holds every key of `req` (any superset will do), then running the
    pipeline (i) rejects no node at construction time and (ii) can only fail with the processor's own
    error — never with an unresolved parameter, a missing or deleted key, an unknown parameter or an
    incompatible data type. -/
theorem analysis_sound (tbl : ResolveTable) (hT : precedenceOK tbl = true) (ns : List Node)
    (hwf : ∀ n ∈ ns, nodeWF n = true) (d₀ : Data) (c₀ : Ctx) (req : List String)
    (hA : analyse ns d₀.ty = .ok req) (hreq : ∀ k ∈ req, c₀.has k = true) :
    match runPipeline tbl ns (d₀, c₀) with
    | .ok _ _ => True
    | .constructError _ _ => False
    | .runError _ e => isFlowC02 e = false := by
  have habs : Abs c₀ (initState d₀.ty) (d₀, c₀) :=
    ⟨rfl, by intro k hk; simp [initState] at hk, by intro k hk _; exact hk⟩
  have h := analyseFrom_sound tbl hT c₀ ns 0 (initState d₀.ty) req (d₀, c₀) hwf hA habs hreq
  simp only [runPipeline, h.1]
  cases he : exec tbl ns (d₀, c₀) with
  | ok s => obtain ⟨d, c⟩ := s; trivial
  | error je => obtain ⟨j, e⟩ := je; exact h.2 j e he

/-- **C02 (per-node facts).** When a node runs successfully, a key can only appear if the node is
    declared to create it and can only disappear if the node is declared to suppress it. -/
theorem key_delta_declared (tbl : ResolveTable) (n : Node) (s s' : Data × Ctx) (h : step tbl n s = .ok s') (k : String) :
    (s'.2.has k = true → s.2.has k = false → (createdOf n).contains k = true ∨ (n.kind = .probe ∧ n.contextKey = none))
    ∧ (s.2.has k = true → s'.2.has k = false → (suppressedOf n).contains k = true) := by
  obtain ⟨d, c⟩ := s
  obtain ⟨d', c'⟩ := s'
  simp only
  cases hkind : n.kind with
  | rename src dst =>
    have hr := rename_touches_only_declared tbl n src dst d d' c c' hkind h
    refine ⟨fun h1 h2 => ?_, fun h1 h2 => ?_⟩
    · left
      by_cases e : k = dst
      · simp [createdOf, hkind, e]
      · by_cases e2 : k = src
        · exfalso
          simp only [step, hkind] at h
          split at h
          · cases h
          · split at h
            · injection h with h; injection h with _ hc2; subst hc2; subst e2
              rw [has_erase] at h1; simp at h1
            · cases h
        · exfalso
          have := hr.2 k e2 e
          rw [has_iff_get, this, ← has_iff_get, h2] at h1; cases h1
    · by_cases e2 : k = src
      · simp [suppressedOf, hkind, e2]
      · exfalso
        by_cases e : k = dst
        · simp only [step, hkind] at h
          split at h
          · cases h
          · split at h
            · injection h with h; injection h with _ hc2; subst hc2
              rw [has_erase, has_set] at h2
              have : (k != src) = true := by simpa using e2
              simp [this, e] at h2
              exact e2 (e.trans h2)
            · cases h
        · have := hr.2 k e2 e
          rw [has_iff_get, this, ← has_iff_get, h1] at h2; cases h2
  | delete key =>
    have hr := delete_touches_only_declared tbl n key d d' c c' hkind h
    refine ⟨fun h1 h2 => ?_, fun h1 h2 => ?_⟩
    · exfalso
      by_cases e : k = key
      · subst e; rw [has_iff_get, hr.2.2] at h1; cases h1
      · have := hr.2.1 k e
        rw [has_iff_get, this, ← has_iff_get, h2] at h1; cases h1
    · by_cases e : k = key
      · simp [suppressedOf, hkind, e]
      · exfalso
        have := hr.2.1 k e
        rw [has_iff_get, this, ← has_iff_get, h1] at h2; cases h2
  | template parts out =>
    have hr := template_touches_only_declared tbl n parts out d d' c c' hkind h
    refine ⟨fun h1 h2 => ?_, fun h1 h2 => ?_⟩
    · left
      by_cases e : k = out
      · simp [createdOf, hkind, e]
      · exfalso
        have := hr.2.1 k e
        rw [has_iff_get, this, ← has_iff_get, h2] at h1; cases h1
    · exfalso
      by_cases e : k = out
      · subst e; rw [has_iff_get] at h2; rw [Option.isSome_iff_ne_none] at hr; simp_all
      · have := hr.2.1 k e
        rw [has_iff_get, this, ← has_iff_get, h1] at h2; cases h2
  | dataSource =>
    have hp := source_produces tbl n d d' c c' hkind h
    rw [hp.2.1]
    exact ⟨fun h1 h2 => (by rw [h1] at h2; cases h2), fun h1 h2 => (by rw [h1] at h2; cases h2)⟩
  | dataSink =>
    have hp := sink_passes_through tbl n d d' c c' (Or.inl hkind) h
    rw [hp.2]
    exact ⟨fun h1 h2 => (by rw [h1] at h2; cases h2), fun h1 h2 => (by rw [h1] at h2; cases h2)⟩
  | payloadSink =>
    have hp := sink_passes_through tbl n d d' c c' (Or.inr hkind) h
    rw [hp.2]
    exact ⟨fun h1 h2 => (by rw [h1] at h2; cases h2), fun h1 h2 => (by rw [h1] at h2; cases h2)⟩
  | operation =>
    have hfr := operation_frames_context tbl n d d' c c' hkind h
    refine ⟨fun h1 h2 => ?_, fun h1 h2 => ?_⟩
    · left
      cases hd : n.declared.contains k with
      | true => simpa [createdOf, hkind] using hd
      | false =>
        exfalso
        rw [has_iff_get, hfr.2 k hd, ← has_iff_get, h2] at h1; cases h1
    · exfalso
      cases hd : n.declared.contains k with
      | false => rw [has_iff_get, hfr.2 k hd, ← has_iff_get, h1] at h2; cases h2
      | true =>
        -- writes never remove a key
        simp only [step, hkind] at h
        split at h
        · cases h
        · split at h
          · cases h
          · cases hsl : n.sliced with
            | true =>
              simp only [hsl, if_true] at h
              cases d with
              | coll t xs =>
                simp only at h
                cases hm : mapBeh n.beh n.declared _ xs with
                | error e => rw [hm] at h; cases h
                | ok r => obtain ⟨ys, ws⟩ := r; rw [hm] at h; injection h with h; injection h with _ hc2; subst hc2
                          rw [has_applyWrites_mono _ _ _ h1] at h2; cases h2
              | nodata => simp at h
              | item t v => simp at h
            | false =>
              simp only [hsl, Bool.false_eq_true, if_false] at h
              cases ha : applyBeh n.beh n.declared (dataVal d) _ with
              | error e => rw [ha] at h; cases h
              | ok r => obtain ⟨v, ws⟩ := r; rw [ha] at h; injection h with h; injection h with _ hc2; subst hc2
                        rw [has_applyWrites_mono _ _ _ h1] at h2; cases h2
  | probe =>
    refine ⟨fun h1 h2 => ?_, fun h1 h2 => ?_⟩
    · cases hck : n.contextKey with
      | none => exact Or.inr ⟨rfl, rfl⟩
      | some ck =>
        left
        by_cases e : k = ck
        · simp [createdOf, hkind, hck, e]
        · exfalso
          simp only [step, hkind] at h
          split at h
          · cases h
          · split at h
            · cases h
            · cases hsl : n.sliced with
              | true =>
                simp only [hsl, if_true, hck, Option.getD_some] at h
                cases d with
                | coll t xs =>
                  simp only at h
                  split at h
                  · cases h
                  · injection h with h; injection h with _ hc2; subst hc2
                    rw [has_set] at h1
                    have : (k == ck) = false := by simpa using e
                    simp [this, h2] at h1
                | nodata => simp at h
                | item t v => simp at h
              | false =>
                simp only [hsl, Bool.false_eq_true, if_false, hck, Option.getD_some] at h
                split at h
                · cases h
                · injection h with h; injection h with _ hc2; subst hc2
                  rw [has_set] at h1
                  have : (k == ck) = false := by simpa using e
                  simp [this, h2] at h1
    · exfalso
      simp only [step, hkind] at h
      split at h
      · cases h
      · split at h
        · cases h
        · cases hsl : n.sliced with
          | true =>
            simp only [hsl, if_true] at h
            cases d with
            | coll t xs =>
              simp only at h
              split at h
              · cases h
              · injection h with h; injection h with _ hc2; subst hc2
                rw [has_set, h1] at h2; simp at h2
            | nodata => simp at h
            | item t v => simp at h
          | false =>
            simp only [hsl, Bool.false_eq_true, if_false] at h
            split at h
            · cases h
            · injection h with h; injection h with _ hc2; subst hc2
              rw [has_set, h1] at h2; simp at h2
  | payloadSource key ktag =>
    simp only [step, hkind] at h
    split at h
    · cases h
    · split at h
      · cases h
      · split at h
        · cases h
        · split at h
          · cases h
          · injection h with h; injection h with _ hc2; subst hc2
            refine ⟨fun h1 h2 => ?_, fun h1 h2 => ?_⟩
            · left
              by_cases e : k = key
              · simp [createdOf, hkind, e]
              · exfalso
                rw [has_set] at h1
                have : (k == key) = false := by simpa using e
                simp [this, h2] at h1
            · exfalso; rw [has_set, h1] at h2; simp at h2

/-! ## Non-vacuity: the shapes the property names -/

def srcDef : Node := { kind := .dataSource, params := [⟨"v", some (Val.str "d0")⟩], inT := "NoDataType", outT := "TData", beh := .term "srcd" }
def op1 : Node := { kind := .operation, params := [⟨"a", none⟩], inT := "TData", outT := "TData", beh := .term "op1" }
def probeTo (k : String) : Node := { kind := .probe, params := [], inT := "TData", outT := "TData", beh := .term "probe", contextKey := some k }
def del (k : String) : Node := { kind := .delete k, params := [⟨k, none⟩], inT := "BaseDataType", outT := "BaseDataType" }

/-- use-before-create: `a` is needed by node 1 and only produced by node 2 — it is an external requirement -/
example : (analyse [srcDef, op1, probeTo "a"]).toOption = some ["a"] := by decide
/-- produced before use: nothing is required -/
example : (analyse [srcDef, probeTo "a", op1]).toOption = some [] := by decide
/-- delete-then-require is rejected -/
example : (analyse [srcDef, del "a", op1]).toOption = none := by decide
/-- a type change is seen across a context-only node -/
example : (analyse [srcDef, del "c", { op1 with inT := "TColl" }]).toOption = none := by decide

end SemantivaModel.Inspect
