import SemantivaModel.Properties.C01
import SemantivaModel.Model.Inspect
import SemantivaModel.Model.Origin
/-!
# C02 — static inspection is sound: accepted configurations do not fail on flow at run time

`analysis_sound`: for pipelines of any length, if the reference analysis accepts and the initial
context holds every key it lists as required, then no node is rejected at construction and no node
fails with an unresolved parameter, a missing/deleted key or the type gate.  The real inspection is
tied to the reference analysis by the correspondence run (`props/c02.py`).
-/
namespace SemantivaModel.Inspect
open SemantivaModel.Exec

/-- The failures C02 is about. -/
def isFlowC02 : Err → Bool
  | .unresolved _ | .missingKey _ | .typeGate | .unknownParam _ | .config _ => true
  | _ => false

/-! ## Context presence lemmas -/

theorem has_iff_get (c : Ctx) (k : String) : c.has k = (c.get k).isSome := rfl

theorem has_set (c : Ctx) (k k' : String) (v : Val) : (c.set k v).has k' = (k' == k || c.has k') := by
  by_cases h : k' = k
  · subst h; simp [has_iff_get, Ctx.get_set_self]
  · have : (k' == k) = false := by simpa using h
    simp [has_iff_get, Ctx.get_set_ne _ _ _ _ h, this]

theorem has_erase (c : Ctx) (k k' : String) : (c.erase k).has k' = (k' != k && c.has k') := by
  by_cases h : k' = k
  · subst h; simp [has_iff_get, Ctx.get_erase_self]
  · have : (k' != k) = true := by simpa using h
    simp [has_iff_get, Ctx.get_erase_ne _ _ _ h, this]

theorem has_applyWrites_mono (c : Ctx) (ws : List (String × Val)) (k : String) (h : c.has k = true) :
    (applyWrites c ws).has k = true := by
  induction ws generalizing c with
  | nil => exact h
  | cons kv rest ih =>
    simp only [applyWrites, List.foldl_cons]
    exact ih _ (by rw [has_set]; simp [h])

theorem has_applyWrites_mem (c : Ctx) (ws : List (String × Val)) (k : String) (h : k ∈ ws.map (·.1)) :
    (applyWrites c ws).has k = true := by
  induction ws generalizing c with
  | nil => simp at h
  | cons kv rest ih =>
    simp only [applyWrites, List.foldl_cons]
    simp only [List.map_cons, List.mem_cons] at h
    rcases h with h | h
    · exact has_applyWrites_mono _ rest k (by rw [has_set, h]; simp)
    · exact ih _ h

/-! ## Parameter resolution succeeds when the value is available somewhere -/

theorem resolve_ok (tbl : ResolveTable) (hT : precedenceOK tbl = true) (n : Node) (c : Ctx) (p : PSig)
    (h : (n.config.lookup p.name).isSome = true ∨ c.has p.name = true ∨ p.dflt.isSome = true) :
    ∃ v, resolve tbl n c p = .ok v := by
  have hp := resolve_precedence tbl hT n c p
  cases hcfg : n.config.lookup p.name with
  | some v => exact ⟨v, hp.1 v hcfg⟩
  | none =>
    cases hctx : c.get p.name with
    | some v => exact ⟨v, hp.2.1 hcfg v hctx⟩
    | none =>
      cases hd : p.dflt with
      | some v => exact ⟨v, hp.2.2.1 hcfg hctx v hd⟩
      | none =>
        exfalso
        rcases h with h | h | h
        · rw [hcfg] at h; cases h
        · rw [has_iff_get, hctx] at h; cases h
        · rw [hd] at h; cases h

theorem resolveAll_ok (tbl : ResolveTable) (hT : precedenceOK tbl = true) (n : Node) (c : Ctx) (ps : List PSig)
    (h : ∀ p ∈ ps, (n.config.lookup p.name).isSome = true ∨ c.has p.name = true ∨ p.dflt.isSome = true) :
    ∃ vs, resolveAll tbl n c ps = .ok vs := by
  induction ps with
  | nil => exact ⟨[], rfl⟩
  | cons p ps ih =>
    obtain ⟨v, hv⟩ := resolve_ok tbl hT n c p (h p (by simp))
    obtain ⟨vs, hvs⟩ := ih (fun q hq => h q (List.mem_cons_of_mem _ hq))
    exact ⟨v :: vs, by simp [resolveAll, hv, hvs]⟩

/-! ## The abstraction relation and the one-node soundness lemma -/

structure Abs (c₀ : Ctx) (st : AState) (s : Data × Ctx) : Prop where
  ty : s.1.ty = st.dtype
  known : ∀ k, st.known.contains k = true → s.2.has k = true
  initial : ∀ k, c₀.has k = true → st.gone.contains k = false → s.2.has k = true

/-- What a successful step does to key presence and to the data type. -/
structure Effect (n : Node) (s s' : Data × Ctx) : Prop where
  ty : s'.1.ty = if producesData n then n.outT else s.1.ty
  created : ∀ k, (createdOf n).contains k = true → (suppressedOf n).contains k = false → s'.2.has k = true
  kept : ∀ k, s.2.has k = true → (suppressedOf n).contains k = false → s'.2.has k = true

theorem step_effect (tbl : ResolveTable) (n : Node) (s s' : Data × Ctx) (hwf : nodeWF n = true)
    (hc : construct n = none) (h : step tbl n s = .ok s') : Effect n s s' := by
  obtain ⟨d, c⟩ := s
  obtain ⟨d', c'⟩ := s'
  cases hkind : n.kind with
  | rename src dst =>
    simp only [step, hkind] at h
    split at h
    · cases h
    · split at h
      · injection h with h; injection h with h1 h2; subst h1; subst h2
        refine ⟨by simp [producesData, hkind], ?_, ?_⟩
        · intro k hk hs
          simp only [createdOf, suppressedOf, hkind, List.contains_cons, List.contains_nil, Bool.or_false, beq_iff_eq] at hk hs
          simp only [has_erase, has_set, Bool.and_eq_true, bne_iff_ne, ne_eq, Bool.or_eq_true, beq_iff_eq]
          exact ⟨by simpa using hs, Or.inl hk⟩
        · intro k hk hs
          simp only [suppressedOf, hkind, List.contains_cons, List.contains_nil, Bool.or_false] at hs
          simp only [has_erase, has_set, Bool.and_eq_true, bne_iff_ne, ne_eq, Bool.or_eq_true, beq_iff_eq]
          exact ⟨by simpa using hs, Or.inr hk⟩
      · cases h
  | delete key =>
    simp only [step, hkind] at h
    split at h
    · cases h
    · split at h
      · injection h with h; injection h with h1 h2; subst h1; subst h2
        refine ⟨by simp [producesData, hkind], ?_, ?_⟩
        · intro k hk; simp [createdOf, hkind] at hk
        · intro k hk hs
          simp only [suppressedOf, hkind, List.contains_cons, List.contains_nil, Bool.or_false] at hs
          simp only [has_erase, Bool.and_eq_true, bne_iff_ne, ne_eq]
          exact ⟨by simpa using hs, hk⟩
      · cases h
  | template parts out =>
    simp only [step, hkind] at h
    split at h
    · cases h
    · injection h with h; injection h with h1 h2; subst h1; subst h2
      refine ⟨by simp [producesData, hkind], ?_, ?_⟩
      · intro k hk _
        simp only [createdOf, hkind, List.contains_cons, List.contains_nil, Bool.or_false, beq_iff_eq] at hk
        simp [has_set, hk]
      · intro k hk _; simp [has_set, hk]
  | dataSource =>
    have hp := source_produces tbl n d d' c c' hkind h
    refine ⟨by simp [producesData, hkind, hp.1], ?_, ?_⟩
    · intro k hk; simp [createdOf, hkind] at hk
    · intro k hk _; rw [hp.2.1]; exact hk
  | payloadSource key ktag =>
    simp only [step, hkind] at h
    split at h
    · cases h
    · split at h
      · cases h
      · split at h
        · cases h
        · split at h
          · cases h
          · injection h with h; injection h with h1 h2; subst h1; subst h2
            refine ⟨by simp [producesData, hkind, Data.ty], ?_, ?_⟩
            · intro k hk _
              simp only [createdOf, hkind, List.contains_cons, List.contains_nil, Bool.or_false, beq_iff_eq] at hk
              simp [has_set, hk]
            · intro k hk _; simp [has_set, hk]
  | operation =>
    have hfr := operation_frames_context tbl n d d' c c' hkind h
    refine ⟨by simp [producesData, hkind, hfr.1], ?_, ?_⟩
    · intro k hk _
      simp only [createdOf, hkind] at hk
      -- a declared key is written: by well-formedness the body is `termWrite _ k _` and the node does not slice
      simp only [nodeWF, hkind, Bool.or_eq_true, List.isEmpty_iff, Bool.and_eq_true, Bool.not_eq_true'] at hwf
      rcases hwf with hwf | ⟨hsl, hbeh⟩
      · rw [hwf] at hk; simp at hk
      · cases hb : n.beh with
        | termWrite tag key wtag =>
          rw [hb] at hbeh
          have hdecl : n.declared = [key] := by simpa using hbeh
          rw [hdecl] at hk
          have hkk : k = key := by simpa using hk
          subst hkk
          simp only [step, hkind, hsl, hb] at h
          split at h
          · cases h
          · split at h
            · cases h
            · simp only [Bool.false_eq_true, if_false, applyBeh, hdecl, List.contains_cons, beq_self_eq_true, Bool.true_or,
                if_true] at h
              injection h with h; injection h with _ h2; subst h2
              exact has_applyWrites_mem _ _ _ (by simp)
        | term _ => rw [hb] at hbeh; cases hbeh
        | merge _ => rw [hb] at hbeh; cases hbeh
        | collOf _ _ => rw [hb] at hbeh; cases hbeh
        | fail _ => rw [hb] at hbeh; cases hbeh
        | echo => rw [hb] at hbeh; cases hbeh
    · intro k hk _
      -- operations never remove a key: either the key is declared (then it is (re)written or kept) or framed
      cases hd : n.declared.contains k with
      | false => rw [has_iff_get, hfr.2 k hd, ← has_iff_get]; exact hk
      | true =>
        simp only [step, hkind] at h
        split at h
        · cases h
        · split at h
          · cases h
          · cases hsl : n.sliced with
            | true =>
              simp only [hsl, if_true] at h
              cases d with
              | coll t xs =>
                simp only at h
                cases hm : mapBeh n.beh n.declared _ xs with
                | error e => rw [hm] at h; cases h
                | ok r => obtain ⟨ys, ws⟩ := r; rw [hm] at h; injection h with h; injection h with _ h2; subst h2
                          exact has_applyWrites_mono _ _ _ hk
              | nodata => simp at h
              | item t v => simp at h
            | false =>
              simp only [hsl, Bool.false_eq_true, if_false] at h
              cases ha : applyBeh n.beh n.declared (dataVal d) _ with
              | error e => rw [ha] at h; cases h
              | ok r => obtain ⟨v, ws⟩ := r; rw [ha] at h; injection h with h; injection h with _ h2; subst h2
                        exact has_applyWrites_mono _ _ _ hk
  | probe =>
    -- construction guarantees a context key
    have hck : ∃ ck, n.contextKey = some ck := by
      cases hcx : n.contextKey with
      | some ck => exact ⟨ck, rfl⟩
      | none => simp [construct, hkind, Kind.isCtxProc, hcx] at hc
    obtain ⟨ck, hck⟩ := hck
    simp only [step, hkind] at h
    split at h
    · cases h
    · split at h
      · cases h
      · cases hsl : n.sliced with
        | true =>
          simp only [hsl, if_true, hck, Option.getD_some] at h
          cases d with
          | coll t xs =>
            simp only at h
            split at h
            · cases h
            · injection h with h; injection h with h1 h2; subst h1; subst h2
              refine ⟨by simp [producesData, hkind], ?_, ?_⟩
              · intro k hk _
                simp only [createdOf, hkind, hck, Option.toList, List.contains_cons, List.contains_nil, Bool.or_false, beq_iff_eq] at hk
                simp [has_set, hk]
              · intro k hk _; simp [has_set, hk]
          | nodata => simp at h
          | item t v => simp at h
        | false =>
          simp only [hsl, Bool.false_eq_true, if_false, hck, Option.getD_some] at h
          split at h
          · cases h
          · injection h with h; injection h with h1 h2; subst h1; subst h2
            refine ⟨by simp [producesData, hkind], ?_, ?_⟩
            · intro k hk _
              simp only [createdOf, hkind, hck, Option.toList, List.contains_cons, List.contains_nil, Bool.or_false, beq_iff_eq] at hk
              simp [has_set, hk]
            · intro k hk _; simp [has_set, hk]
  | dataSink =>
    have hp := sink_passes_through tbl n d d' c c' (Or.inl hkind) h
    refine ⟨by simp [producesData, hkind, hp.1], ?_, ?_⟩
    · intro k hk; simp [createdOf, hkind] at hk
    · intro k hk _; rw [hp.2]; exact hk
  | payloadSink =>
    have hp := sink_passes_through tbl n d d' c c' (Or.inr hkind) h
    refine ⟨by simp [producesData, hkind, hp.1], ?_, ?_⟩
    · intro k hk; simp [createdOf, hkind] at hk
    · intro k hk _; rw [hp.2]; exact hk

theorem applyBeh_error_nonflow (b : Beh) (declared : List String) (v : Option Val) (ps : List Val) (e : Err)
    (h : applyBeh b declared v ps = .error e) : isFlowC02 e = false := by
  cases b with
  | term tag => simp [applyBeh] at h
  | termWrite tag key wtag =>
    simp only [applyBeh] at h
    split at h
    · cases h
    · injection h with h; subst h; rfl
  | merge tag =>
    simp only [applyBeh] at h
    split at h
    · cases h
    · injection h with h; subst h; rfl
  | collOf tag n => simp [applyBeh] at h
  | fail cls => simp only [applyBeh] at h; injection h with h; subst h; rfl
  | echo => simp [applyBeh] at h

theorem mapBeh_error_nonflow (b : Beh) (declared : List String) (ps : List Val) :
    ∀ (xs : List Val) (e : Err), mapBeh b declared ps xs = .error e → isFlowC02 e = false
  | [], e, h => by simp [mapBeh] at h
  | x :: xs, e, h => by
    simp only [mapBeh] at h
    split at h
    · rename_i e' he
      injection h with h; subst h
      exact applyBeh_error_nonflow b declared _ ps _ he
    · split at h
      · rename_i e' he
        injection h with h; subst h
        exact mapBeh_error_nonflow b declared ps xs _ he
      · cases h

/-- Every key the analysis counted on is present: produced earlier, or external and never deleted. -/
theorem need_available {c₀ : Ctx} {st : AState} {s : Data × Ctx} (habs : Abs c₀ st s) (need : List String)
    (hgone : need.find? (fun k => st.gone.contains k) = none) (hreq : ∀ k ∈ need, c₀.has k = true)
    (k : String) (hk : k ∈ need ∨ st.known.contains k = true) : s.2.has k = true := by
  rcases hk with hk | hk
  · have := List.find?_eq_none.mp hgone k hk
    exact habs.initial k (hreq k hk) (by simpa using this)
  · exact habs.known k hk

theorem param_available (n : Node) (st : AState) (p : PSig) (hp : p ∈ n.params) :
    (n.config.lookup p.name).isSome = true ∨ (p.name ∈ neededKeys n st ∨ st.known.contains p.name = true)
      ∨ p.dflt.isSome = true := by
  cases hcfg : (n.config.lookup p.name).isSome with
  | true => exact Or.inl rfl
  | false =>
    cases hkn : st.known.contains p.name with
    | true => exact Or.inr (Or.inl (Or.inr rfl))
    | false =>
      cases hd : p.dflt.isSome with
      | true => exact Or.inr (Or.inr rfl)
      | false =>
        refine Or.inr (Or.inl (Or.inl ?_))
        simp only [neededKeys, List.mem_append, List.mem_map, List.mem_filter]
        left
        refine ⟨p, ⟨hp, ?_⟩, rfl⟩
        have h1 : (n.config.lookup p.name).isNone = true := by
          cases h : n.config.lookup p.name with
          | none => rfl
          | some v => rw [h] at hcfg; cases hcfg
        have h3 : p.dflt.isNone = true := by
          cases h : p.dflt with
          | none => rfl
          | some v => rw [h] at hd; cases hd
        simp only [h1, hkn, h3, Bool.not_false, Bool.and_self]

theorem must_available (n : Node) (st : AState) (k : String) (hk : k ∈ mustBeInContext n) :
    k ∈ neededKeys n st ∨ st.known.contains k = true := by
  cases hkn : st.known.contains k with
  | true => exact Or.inr rfl
  | false =>
    left
    simp only [neededKeys, List.mem_append, List.mem_filter]
    right
    exact ⟨hk, by simp only [hkn, Bool.not_false]⟩

/-- **One node.** If the reference analysis lets node `n` through in state `st`, the concrete state is
    abstracted by `st`, and the initial context holds the keys the analysis asked for, then the node
    is constructible, it cannot fail on flow, and the state it produces is abstracted by the
    analysis' next state. -/
theorem stepA_sound (tbl : ResolveTable) (hT : precedenceOK tbl = true) (n : Node) (hwf : nodeWF n = true)
    (c₀ : Ctx) (st st' : AState) (need : List String) (s : Data × Ctx)
    (hA : stepA n st = .ok (need, st')) (habs : Abs c₀ st s) (hreq : ∀ k ∈ need, c₀.has k = true) :
    construct n = none
    ∧ (∀ e, step tbl n s = .error e → isFlowC02 e = false)
    ∧ (∀ s', step tbl n s = .ok s' → Abs c₀ st' s') := by
  -- unpack the analysis step
  unfold stepA at hA
  cases hc : construct n with
  | some e => rw [hc] at hA; cases hA
  | none =>
    rw [hc] at hA
    simp only at hA
    split at hA
    · cases hA
    · rename_i hgate
      split at hA
      · cases hA
      · rename_i hgone
        injection hA with hA; injection hA with hneed hst
        subst hneed
        have havail := need_available habs _ hgone hreq
        have hparams : ∀ p ∈ n.params,
            (n.config.lookup p.name).isSome = true ∨ s.2.has p.name = true ∨ p.dflt.isSome = true := by
          intro p hp
          rcases param_available n st p hp with h | h | h
          · exact Or.inl h
          · exact Or.inr (Or.inl (havail _ h))
          · exact Or.inr (Or.inr h)
        have hmust : ∀ k ∈ mustBeInContext n, s.2.has k = true := fun k hk => havail _ (must_available n st k hk)
        refine ⟨rfl, ?_, ?_⟩
        · -- no flow error
          obtain ⟨d, c⟩ := s
          intro e he
          cases hkind : n.kind with
          | rename src dst =>
            have hsrc : c.has src = true := hmust src (by simp [mustBeInContext, suppressedOf, hkind])
            obtain ⟨v, hv⟩ := resolve_ok tbl hT n c ⟨src, none⟩ (Or.inr (Or.inl hsrc))
            simp only [step, hkind, hv, has_set, hsrc, Bool.or_true, if_true] at he
            cases he
          | delete key =>
            have hsrc : c.has key = true := hmust key (by simp [mustBeInContext, suppressedOf, hkind])
            obtain ⟨v, hv⟩ := resolve_ok tbl hT n c ⟨key, none⟩ (Or.inr (Or.inl hsrc))
            simp only [step, hkind, hv, hsrc, if_true] at he
            cases he
          | template parts out =>
            obtain ⟨vs, hvs⟩ := resolveAll_ok tbl hT n c n.params hparams
            simp only [step, hkind, hvs] at he
            cases he
          | dataSource =>
            have hg : typeAccepts n.inT d.ty = true := by
              have := habs.ty; simp only at this; rw [this]
              simpa [hkind, Kind.isCtxProc] using hgate
            obtain ⟨vs, hvs⟩ := resolveAll_ok tbl hT n c n.params hparams
            simp only [step, hkind, hg, Bool.not_true, Bool.false_eq_true, if_false, hvs] at he
            split at he
            · rename_i e' he'
              injection he with he; subst he
              exact applyBeh_error_nonflow _ _ _ _ _ he'
            · cases he
          | payloadSource key ktag =>
            have hg : typeAccepts n.inT d.ty = true := by
              have := habs.ty; simp only at this; rw [this]
              simpa [hkind, Kind.isCtxProc] using hgate
            obtain ⟨vs, hvs⟩ := resolveAll_ok tbl hT n c n.params hparams
            simp only [step, hkind, hg, Bool.not_true, Bool.false_eq_true, if_false, hvs] at he
            split at he
            · rename_i e' he'
              injection he with he; subst he
              exact applyBeh_error_nonflow _ _ _ _ _ he'
            · split at he
              · injection he with he; subst he; rfl
              · cases he
          | operation =>
            have hg : typeAccepts n.inT d.ty = true := by
              have := habs.ty; simp only at this; rw [this]
              simpa [hkind, Kind.isCtxProc] using hgate
            obtain ⟨vs, hvs⟩ := resolveAll_ok tbl hT n c n.params hparams
            simp only [step, hkind, hg, Bool.not_true, Bool.false_eq_true, if_false, hvs] at he
            split at he
            · split at he
              · split at he
                · rename_i e' he'
                  injection he with he; subst he
                  exact mapBeh_error_nonflow _ _ _ _ _ he'
                · cases he
              · injection he with he; subst he; rfl
            · split at he
              · rename_i e' he'
                injection he with he; subst he
                exact applyBeh_error_nonflow _ _ _ _ _ he'
              · cases he
          | probe =>
            have hg : typeAccepts n.inT d.ty = true := by
              have := habs.ty; simp only at this; rw [this]
              simpa [hkind, Kind.isCtxProc] using hgate
            obtain ⟨vs, hvs⟩ := resolveAll_ok tbl hT n c n.params hparams
            simp only [step, hkind, hg, Bool.not_true, Bool.false_eq_true, if_false, hvs] at he
            split at he
            · split at he
              · split at he
                · rename_i e' he'
                  injection he with he; subst he
                  exact mapBeh_error_nonflow _ _ _ _ _ he'
                · cases he
              · injection he with he; subst he; rfl
            · split at he
              · rename_i e' he'
                injection he with he; subst he
                exact applyBeh_error_nonflow _ _ _ _ _ he'
              · cases he
          | dataSink =>
            have hg : typeAccepts n.inT d.ty = true := by
              have := habs.ty; simp only at this; rw [this]
              simpa [hkind, Kind.isCtxProc] using hgate
            obtain ⟨vs, hvs⟩ := resolveAll_ok tbl hT n c n.params hparams
            simp only [step, hkind, hg, Bool.not_true, Bool.false_eq_true, if_false, hvs] at he
            cases he
          | payloadSink =>
            have hg : typeAccepts n.inT d.ty = true := by
              have := habs.ty; simp only at this; rw [this]
              simpa [hkind, Kind.isCtxProc] using hgate
            obtain ⟨vs, hvs⟩ := resolveAll_ok tbl hT n c n.params hparams
            simp only [step, hkind, hg, Bool.not_true, Bool.false_eq_true, if_false, hvs] at he
            cases he
        · -- the abstraction is preserved
          intro s' hs'
          have heff := step_effect tbl n s s' hwf hc hs'
          subst hst
          refine ⟨?_, ?_, ?_⟩
          · simp only
            rw [heff.ty, habs.ty]
          · intro k hk
            simp only [List.contains_eq_mem, List.mem_filter, List.mem_append, decide_eq_true_eq, Bool.not_eq_true',
              decide_eq_false_iff_not, Bool.decide_and, Bool.and_eq_true] at hk
            obtain ⟨hk1, hk2⟩ := hk
            have hs : (suppressedOf n).contains k = false := by simpa using hk2
            rcases hk1 with hk1 | hk1
            · exact heff.kept k (habs.known k (by simpa using hk1)) hs
            · exact heff.created k (by simpa using hk1) hs
          · intro k hk0 hg
            simp only [List.contains_eq_mem, List.mem_append, List.mem_filter, decide_eq_false_iff_not, not_or, not_and,
              Bool.not_eq_true', decide_eq_true_eq, Bool.decide_or, Bool.or_eq_false_iff] at hg
            obtain ⟨hg1, hg2⟩ := hg
            have hs : (suppressedOf n).contains k = false := by simpa using hg2
            by_cases hcr : k ∈ createdOf n
            · exact heff.created k (by simpa using hcr) hs
            · have : st.gone.contains k = false := by
                cases hgk : st.gone.contains k with
                | false => rfl
                | true =>
                  exfalso
                  have := hg1 (by simpa using hgk)
                  simp at this
                  exact hcr this
              exact heff.kept k (habs.initial k hk0 this) hs

/-! ## Whole pipelines -/

/-- Acceptance by the analysis implies that every node passes the construction-time checks. -/
theorem constructAll_of_analyse : ∀ (ns : List Node) (i : Nat) (st : AState) (req : List String),
    analyseFrom ns i st = .ok req → constructAll ns i = none
  | [], _, _, _, _ => rfl
  | n :: ns, i, st, req, hA => by
    simp only [analyseFrom] at hA
    split at hA
    · cases hA
    · rename_i need st' hstep
      split at hA
      · cases hA
      · rename_i rest hrest
        have hc : construct n = none := by
          unfold stepA at hstep
          cases hc : construct n with
          | none => rfl
          | some e => rw [hc] at hstep; cases hstep
        simp only [constructAll, hc]
        exact constructAll_of_analyse ns (i + 1) st' rest hrest

theorem analyseFrom_sound (tbl : ResolveTable) (hT : precedenceOK tbl = true) (c₀ : Ctx) :
    ∀ (ns : List Node) (i : Nat) (st : AState) (req : List String) (s : Data × Ctx),
      (∀ n ∈ ns, nodeWF n = true) →
      analyseFrom ns i st = .ok req → Abs c₀ st s → (∀ k ∈ req, c₀.has k = true) →
      constructAll ns i = none
      ∧ ∀ j e, execFrom tbl ns i s = .error (j, e) → isFlowC02 e = false
  | [], i, st, req, s, _, _, _, _ => ⟨rfl, by intro j e h; simp [execFrom] at h⟩
  | n :: ns, i, st, req, s, hwf, hA, habs, hreq => by
    simp only [analyseFrom] at hA
    split at hA
    · cases hA
    · rename_i need st' hstep
      split at hA
      · cases hA
      · rename_i rest hrest
        injection hA with hA; subst hA
        have h1 := stepA_sound tbl hT n (hwf n (by simp)) c₀ st st' need s hstep habs
          (fun k hk => hreq k (List.mem_append_left _ hk))
        refine ⟨?_, ?_⟩
        · simp only [constructAll, h1.1]
          cases hs : step tbl n s with
          | error e =>
            -- the construction checks of the remaining nodes are static
            exact constructAll_of_analyse ns (i + 1) st' rest hrest
          | ok s' =>
            exact (analyseFrom_sound tbl hT c₀ ns (i + 1) st' rest s' (fun m hm => hwf m (List.mem_cons_of_mem _ hm)) hrest
              (h1.2.2 s' hs) (fun k hk => hreq k (List.mem_append_right _ hk))).1
        · intro j e he
          simp only [execFrom] at he
          cases hs : step tbl n s with
          | error e' =>
            rw [hs] at he
            simp only at he
            injection he with he; injection he with _ h2; subst h2
            exact h1.2.1 e' hs
          | ok s' =>
            rw [hs] at he
            simp only at he
            exact (analyseFrom_sound tbl hT c₀ ns (i + 1) st' rest s' (fun m hm => hwf m (List.mem_cons_of_mem _ hm)) hrest
              (h1.2.2 s' hs) (fun k hk => hreq k (List.mem_append_right _ hk))).2 j e he

/-- **C02 (soundness).** If the reference analysis accepts a pipeline (of any length) with external
    requirements `req`, the library is well-formed, the initial data has the type the analysis started
    from and the initial context holds every key of `req` (any superset will do), then running the
    pipeline (i) rejects no node at construction time and (ii) can only fail with the processor's own
    error — never with an unresolved parameter, a missing or deleted key, an unknown parameter or an
    incompatible data type. -/
theorem analysis_sound (tbl : ResolveTable) (hT : precedenceOK tbl = true) (ns : List Node)
    (hwf : ∀ n ∈ ns, nodeWF n = true) (d₀ : Data) (c₀ : Ctx) (req : List String)
    (hA : analyse ns d₀.ty = .ok req) (hreq : ∀ k ∈ req, c₀.has k = true) :
    match runPipeline tbl ns (d₀, c₀) with
    | .ok _ _ => True
    | .constructError _ _ => False
    | .runError _ e => isFlowC02 e = false := by
  have habs : Abs c₀ (initState d₀.ty) (d₀, c₀) :=
    ⟨rfl, by intro k hk; simp [initState] at hk, by intro k hk _; exact hk⟩
  have h := analyseFrom_sound tbl hT c₀ ns 0 (initState d₀.ty) req (d₀, c₀) hwf hA habs hreq
  simp only [runPipeline, h.1]
  cases he : exec tbl ns (d₀, c₀) with
  | ok s => obtain ⟨d, c⟩ := s; trivial
  | error je => obtain ⟨j, e⟩ := je; exact h.2 j e he

/-- **C02 (per-node facts).** When a node runs successfully, a key can only appear if the node is
    declared to create it and can only disappear if the node is declared to suppress it. -/
theorem key_delta_declared (tbl : ResolveTable) (n : Node) (s s' : Data × Ctx) (h : step tbl n s = .ok s') (k : String) :
    (s'.2.has k = true → s.2.has k = false → (createdOf n).contains k = true ∨ (n.kind = .probe ∧ n.contextKey = none))
    ∧ (s.2.has k = true → s'.2.has k = false → (suppressedOf n).contains k = true) := by
  obtain ⟨d, c⟩ := s
  obtain ⟨d', c'⟩ := s'
  simp only
  cases hkind : n.kind with
  | rename src dst =>
    have hr := rename_touches_only_declared tbl n src dst d d' c c' hkind h
    refine ⟨fun h1 h2 => ?_, fun h1 h2 => ?_⟩
    · left
      by_cases e : k = dst
      · simp [createdOf, hkind, e]
      · by_cases e2 : k = src
        · exfalso
          simp only [step, hkind] at h
          split at h
          · cases h
          · split at h
            · injection h with h; injection h with _ hc2; subst hc2; subst e2
              rw [has_erase] at h1; simp at h1
            · cases h
        · exfalso
          have := hr.2 k e2 e
          rw [has_iff_get, this, ← has_iff_get, h2] at h1; cases h1
    · by_cases e2 : k = src
      · simp [suppressedOf, hkind, e2]
      · exfalso
        by_cases e : k = dst
        · simp only [step, hkind] at h
          split at h
          · cases h
          · split at h
            · injection h with h; injection h with _ hc2; subst hc2
              rw [has_erase, has_set] at h2
              have : (k != src) = true := by simpa using e2
              simp [this, e] at h2
              exact e2 (e.trans h2)
            · cases h
        · have := hr.2 k e2 e
          rw [has_iff_get, this, ← has_iff_get, h1] at h2; cases h2
  | delete key =>
    have hr := delete_touches_only_declared tbl n key d d' c c' hkind h
    refine ⟨fun h1 h2 => ?_, fun h1 h2 => ?_⟩
    · exfalso
      by_cases e : k = key
      · subst e; rw [has_iff_get, hr.2.2] at h1; cases h1
      · have := hr.2.1 k e
        rw [has_iff_get, this, ← has_iff_get, h2] at h1; cases h1
    · by_cases e : k = key
      · simp [suppressedOf, hkind, e]
      · exfalso
        have := hr.2.1 k e
        rw [has_iff_get, this, ← has_iff_get, h1] at h2; cases h2
  | template parts out =>
    have hr := template_touches_only_declared tbl n parts out d d' c c' hkind h
    refine ⟨fun h1 h2 => ?_, fun h1 h2 => ?_⟩
    · left
      by_cases e : k = out
      · simp [createdOf, hkind, e]
      · exfalso
        have := hr.2.1 k e
        rw [has_iff_get, this, ← has_iff_get, h2] at h1; cases h1
    · exfalso
      by_cases e : k = out
      · subst e; rw [has_iff_get] at h2; rw [Option.isSome_iff_ne_none] at hr; simp_all
      · have := hr.2.1 k e
        rw [has_iff_get, this, ← has_iff_get, h1] at h2; cases h2
  | dataSource =>
    have hp := source_produces tbl n d d' c c' hkind h
    rw [hp.2.1]
    exact ⟨fun h1 h2 => (by rw [h1] at h2; cases h2), fun h1 h2 => (by rw [h1] at h2; cases h2)⟩
  | dataSink =>
    have hp := sink_passes_through tbl n d d' c c' (Or.inl hkind) h
    rw [hp.2]
    exact ⟨fun h1 h2 => (by rw [h1] at h2; cases h2), fun h1 h2 => (by rw [h1] at h2; cases h2)⟩
  | payloadSink =>
    have hp := sink_passes_through tbl n d d' c c' (Or.inr hkind) h
    rw [hp.2]
    exact ⟨fun h1 h2 => (by rw [h1] at h2; cases h2), fun h1 h2 => (by rw [h1] at h2; cases h2)⟩
  | operation =>
    have hfr := operation_frames_context tbl n d d' c c' hkind h
    refine ⟨fun h1 h2 => ?_, fun h1 h2 => ?_⟩
    · left
      cases hd : n.declared.contains k with
      | true => simpa [createdOf, hkind] using hd
      | false =>
        exfalso
        rw [has_iff_get, hfr.2 k hd, ← has_iff_get, h2] at h1; cases h1
    · exfalso
      cases hd : n.declared.contains k with
      | false => rw [has_iff_get, hfr.2 k hd, ← has_iff_get, h1] at h2; cases h2
      | true =>
        -- writes never remove a key
        simp only [step, hkind] at h
        split at h
        · cases h
        · split at h
          · cases h
          · cases hsl : n.sliced with
            | true =>
              simp only [hsl, if_true] at h
              cases d with
              | coll t xs =>
                simp only at h
                cases hm : mapBeh n.beh n.declared _ xs with
                | error e => rw [hm] at h; cases h
                | ok r => obtain ⟨ys, ws⟩ := r; rw [hm] at h; injection h with h; injection h with _ hc2; subst hc2
                          rw [has_applyWrites_mono _ _ _ h1] at h2; cases h2
              | nodata => simp at h
              | item t v => simp at h
            | false =>
              simp only [hsl, Bool.false_eq_true, if_false] at h
              cases ha : applyBeh n.beh n.declared (dataVal d) _ with
              | error e => rw [ha] at h; cases h
              | ok r => obtain ⟨v, ws⟩ := r; rw [ha] at h; injection h with h; injection h with _ hc2; subst hc2
                        rw [has_applyWrites_mono _ _ _ h1] at h2; cases h2
  | probe =>
    refine ⟨fun h1 h2 => ?_, fun h1 h2 => ?_⟩
    · cases hck : n.contextKey with
      | none => exact Or.inr ⟨rfl, rfl⟩
      | some ck =>
        left
        by_cases e : k = ck
        · simp [createdOf, hkind, hck, e]
        · exfalso
          simp only [step, hkind] at h
          split at h
          · cases h
          · split at h
            · cases h
            · cases hsl : n.sliced with
              | true =>
                simp only [hsl, if_true, hck, Option.getD_some] at h
                cases d with
                | coll t xs =>
                  simp only at h
                  split at h
                  · cases h
                  · injection h with h; injection h with _ hc2; subst hc2
                    rw [has_set] at h1
                    have : (k == ck) = false := by simpa using e
                    simp [this, h2] at h1
                | nodata => simp at h
                | item t v => simp at h
              | false =>
                simp only [hsl, Bool.false_eq_true, if_false, hck, Option.getD_some] at h
                split at h
                · cases h
                · injection h with h; injection h with _ hc2; subst hc2
                  rw [has_set] at h1
                  have : (k == ck) = false := by simpa using e
                  simp [this, h2] at h1
    · exfalso
      simp only [step, hkind] at h
      split at h
      · cases h
      · split at h
        · cases h
        · cases hsl : n.sliced with
          | true =>
            simp only [hsl, if_true] at h
            cases d with
            | coll t xs =>
              simp only at h
              split at h
              · cases h
              · injection h with h; injection h with _ hc2; subst hc2
                rw [has_set, h1] at h2; simp at h2
            | nodata => simp at h
            | item t v => simp at h
          | false =>
            simp only [hsl, Bool.false_eq_true, if_false] at h
            split at h
            · cases h
            · injection h with h; injection h with _ hc2; subst hc2
              rw [has_set, h1] at h2; simp at h2
  | payloadSource key ktag =>
    simp only [step, hkind] at h
    split at h
    · cases h
    · split at h
      · cases h
      · split at h
        · cases h
        · split at h
          · cases h
          · injection h with h; injection h with _ hc2; subst hc2
            refine ⟨fun h1 h2 => ?_, fun h1 h2 => ?_⟩
            · left
              by_cases e : k = key
              · simp [createdOf, hkind, e]
              · exfalso
                rw [has_set] at h1
                have : (k == key) = false := by simpa using e
                simp [this, h2] at h1
            · exfalso; rw [has_set, h1] at h2; simp at h2

/-! ## Non-vacuity: the shapes the property names -/

def srcDef : Node := { kind := .dataSource, params := [⟨"v", some (Val.str "d0")⟩], inT := "NoDataType", outT := "TData", beh := .term "srcd" }
def op1 : Node := { kind := .operation, params := [⟨"a", none⟩], inT := "TData", outT := "TData", beh := .term "op1" }
def probeTo (k : String) : Node := { kind := .probe, params := [], inT := "TData", outT := "TData", beh := .term "probe", contextKey := some k }
def del (k : String) : Node := { kind := .delete k, params := [⟨k, none⟩], inT := "BaseDataType", outT := "BaseDataType" }

/-- use-before-create: `a` is needed by node 1 and only produced by node 2 — it is an external requirement -/
example : (analyse [srcDef, op1, probeTo "a"]).toOption = some ["a"] := by decide
/-- produced before use: nothing is required -/
example : (analyse [srcDef, probeTo "a", op1]).toOption = some [] := by decide
/-- delete-then-require is rejected -/
example : (analyse [srcDef, del "a", op1]).toOption = none := by decide
/-- a type change is seen across a context-only node -/
example : (analyse [srcDef, del "c", { op1 with inT := "TColl" }]).toOption = none := by decide


/-!
## Part 2 — the reported parameter origins are true (and where they are not)

The real inspection reports, for every parameter of every node, where its value will come from.
`origin_config_true`, `origin_node_true`, `origin_initial_true`: for pipelines of any length, a
parameter reported as coming from the node configuration / from node `j` / from the initial context
receives at run time exactly the configured value / the value key `p` had right after node `j` ran /
the value the caller supplied.  `origin_default_true_partial`: a parameter reported as defaulted
receives its default **provided the caller's context does not hold that name**; the full statement
("with exactly the required keys supplied") is false of the one-pass analysis, and
`origin_default_untrue_witness` exhibits the failing pipeline (the recorded finding of C02).
-/

/-! ## The origin map after one node -/

theorem lookup_filter_key (l : List (String × Nat)) (q : String → Bool) (k : String) :
    (l.filter (fun kv => q kv.1)).lookup k = if q k then l.lookup k else none := by
  induction l with
  | nil => simp [List.lookup]
  | cons kv rest ih =>
    obtain ⟨a, b⟩ := kv
    by_cases hq : q a = true
    · simp only [List.filter_cons, hq, if_true, List.lookup]
      by_cases e : k = a
      · subst e; simp [hq]
      · have : (k == a) = false := by simpa using e
        simp only [this]; exact ih
    · have hq' : q a = false := by simpa using hq
      simp only [List.filter_cons, hq', Bool.false_eq_true, if_false, List.lookup]
      by_cases e : k = a
      · subst e; simp only [hq', Bool.false_eq_true, if_false] at ih ⊢; exact ih
      · have : (k == a) = false := by simpa using e
        simp only [this]; exact ih

theorem lookup_map_append (ks : List String) (i : Nat) (om : OMap) (k : String) :
    ((ks.map (fun x => (x, i))) ++ om).lookup k = if ks.contains k then some i else om.lookup k := by
  induction ks with
  | nil => simp
  | cons a rest ih =>
    simp only [List.map_cons, List.cons_append, List.lookup, List.contains_cons]
    by_cases e : k = a
    · subst e; simp
    · have : (k == a) = false := by simpa using e
      simp only [this, Bool.false_or]; exact ih

theorem stepO_lookup (n : Node) (i : Nat) (st : OState) (k : String) :
    (stepO n i st).om.lookup k =
      if (suppressedOf n).contains k then none
      else if (createdOf n).contains k then some i else st.om.lookup k := by
  simp only [stepO]
  rw [lookup_filter_key _ (fun x => !(suppressedOf n).contains x), lookup_map_append]
  cases (suppressedOf n).contains k <;> simp

theorem stepO_gone (n : Node) (i : Nat) (st : OState) (k : String) :
    (stepO n i st).gone.contains k =
      ((st.gone.contains k && !(createdOf n).contains k) || (suppressedOf n).contains k) := by
  simp only [stepO]
  rw [Bool.eq_iff_iff]
  simp only [List.mem_append, List.mem_filter, Bool.or_eq_true, Bool.and_eq_true,
    Bool.not_eq_true', List.contains_eq_mem, decide_eq_true_eq, decide_eq_false_iff_not]

/-! ## What one node does to the *values* of keys it neither creates nor suppresses -/

theorem step_frame_get (tbl : ResolveTable) (n : Node) (s s' : Data × Ctx) (hc : construct n = none)
    (h : step tbl n s = .ok s') (k : String)
    (hcr : (createdOf n).contains k = false) (hsu : (suppressedOf n).contains k = false) :
    s'.2.get k = s.2.get k := by
  obtain ⟨d, c⟩ := s
  obtain ⟨d', c'⟩ := s'
  simp only
  cases hkind : n.kind with
  | rename src dst =>
    have hr := rename_touches_only_declared tbl n src dst d d' c c' hkind h
    simp only [createdOf, suppressedOf, hkind, List.contains_cons, List.contains_nil, Bool.or_false, beq_eq_false_iff_ne, ne_eq] at hcr hsu
    exact hr.2 k hsu hcr
  | delete key =>
    have hr := delete_touches_only_declared tbl n key d d' c c' hkind h
    simp only [suppressedOf, hkind, List.contains_cons, List.contains_nil, Bool.or_false, beq_eq_false_iff_ne, ne_eq] at hsu
    exact hr.2.1 k hsu
  | template parts out =>
    have hr := template_touches_only_declared tbl n parts out d d' c c' hkind h
    simp only [createdOf, hkind, List.contains_cons, List.contains_nil, Bool.or_false, beq_eq_false_iff_ne, ne_eq] at hcr
    exact hr.2.1 k hcr
  | dataSource =>
    have hp := source_produces tbl n d d' c c' hkind h
    rw [hp.2.1]
  | dataSink =>
    have hp := sink_passes_through tbl n d d' c c' (Or.inl hkind) h
    rw [hp.2]
  | payloadSink =>
    have hp := sink_passes_through tbl n d d' c c' (Or.inr hkind) h
    rw [hp.2]
  | operation =>
    have hfr := operation_frames_context tbl n d d' c c' hkind h
    simp only [createdOf, hkind] at hcr
    exact hfr.2 k hcr
  | probe =>
    cases hck : n.contextKey with
    | none => simp [construct, Kind.isCtxProc, hkind, hck] at hc
    | some ck =>
      simp only [createdOf, hkind, hck, Option.toList, List.contains_cons, List.contains_nil, Bool.or_false,
        beq_eq_false_iff_ne, ne_eq] at hcr
      simp only [step, hkind] at h
      split at h
      · cases h
      · split at h
        · cases h
        · cases hsl : n.sliced with
          | true =>
            simp only [hsl, if_true, hck, Option.getD_some] at h
            cases d with
            | coll t xs =>
              simp only at h
              split at h
              · cases h
              · injection h with h; injection h with _ hc2; subst hc2
                exact Ctx.get_set_ne _ _ _ _ hcr
            | nodata => simp at h
            | item t v => simp at h
          | false =>
            simp only [hsl, Bool.false_eq_true, if_false, hck, Option.getD_some] at h
            split at h
            · cases h
            · injection h with h; injection h with _ hc2; subst hc2
              exact Ctx.get_set_ne _ _ _ _ hcr
  | payloadSource key ktag =>
    simp only [createdOf, hkind, List.contains_cons, List.contains_nil, Bool.or_false, beq_eq_false_iff_ne, ne_eq] at hcr
    simp only [step, hkind] at h
    split at h
    · cases h
    · split at h
      · cases h
      · split at h
        · cases h
        · split at h
          · cases h
          · injection h with h; injection h with _ hc2; subst hc2
            exact Ctx.get_set_ne _ _ _ _ hcr

/-- A key a node is declared to suppress is absent afterwards. -/
theorem step_suppressed_absent (tbl : ResolveTable) (n : Node) (s s' : Data × Ctx)
    (h : step tbl n s = .ok s') (k : String) (hsu : (suppressedOf n).contains k = true) :
    s'.2.has k = false := by
  obtain ⟨d, c⟩ := s
  obtain ⟨d', c'⟩ := s'
  simp only
  cases hkind : n.kind with
  | rename src dst =>
    simp only [suppressedOf, hkind, List.contains_cons, List.contains_nil, Bool.or_false, beq_iff_eq] at hsu
    subst hsu
    simp only [step, hkind] at h
    split at h
    · cases h
    · split at h
      · injection h with h; injection h with _ hc2; subst hc2
        rw [has_erase]; simp
      · cases h
  | delete key =>
    simp only [suppressedOf, hkind, List.contains_cons, List.contains_nil, Bool.or_false, beq_iff_eq] at hsu
    subst hsu
    have hr := delete_touches_only_declared tbl n k d d' c c' hkind h
    rw [has_iff_get, hr.2.2]; rfl
  | template parts out => simp [suppressedOf, hkind] at hsu
  | dataSource => simp [suppressedOf, hkind] at hsu
  | dataSink => simp [suppressedOf, hkind] at hsu
  | payloadSink => simp [suppressedOf, hkind] at hsu
  | operation => simp [suppressedOf, hkind] at hsu
  | probe => simp [suppressedOf, hkind] at hsu
  | payloadSource key ktag => simp [suppressedOf, hkind] at hsu

/-! ## The invariant relating the origin map to the recorded history -/

/-- `hist` = the contexts after nodes 0 … i-1 (in order), `s` = the state node i starts from. -/
structure OInv (c₀ : Ctx) (hist : List Ctx) (st : OState) (s : Data × Ctx) : Prop where
  fromNode : ∀ k j, st.om.lookup k = some j →
    ∃ cj, hist[j]? = some cj ∧ s.2.get k = cj.get k ∧ s.2.has k = true
  untouched : ∀ k, st.om.lookup k = none → st.gone.contains k = false → s.2.get k = c₀.get k
  absent : ∀ k, st.om.lookup k = none → st.gone.contains k = true → s.2.has k = false

theorem oinv_init (d₀ : Data) (c₀ : Ctx) : OInv c₀ [] OState.init (d₀, c₀) :=
  ⟨by intro k j h; simp [OState.init] at h, by intro k _ _; rfl, by intro k _ h; simp [OState.init] at h⟩

theorem oinv_step (tbl : ResolveTable) (c₀ : Ctx) (hist : List Ctx) (st : OState) (n : Node) (s s' : Data × Ctx)
    (hwf : nodeWF n = true) (hc : construct n = none) (h : step tbl n s = .ok s') (hinv : OInv c₀ hist st s) :
    OInv c₀ (hist ++ [s'.2]) (stepO n hist.length st) s' := by
  have heff := step_effect tbl n s s' hwf hc h
  refine ⟨?_, ?_, ?_⟩
  · intro k j hj
    rw [stepO_lookup] at hj
    cases hsu : (suppressedOf n).contains k with
    | true => rw [hsu] at hj; simp at hj
    | false =>
      rw [hsu] at hj
      simp only [Bool.false_eq_true, if_false] at hj
      cases hcr : (createdOf n).contains k with
      | true =>
        rw [hcr] at hj
        simp only [if_true] at hj
        injection hj with hj; subst hj
        exact ⟨s'.2, by simp, rfl, heff.created k hcr hsu⟩
      | false =>
        rw [hcr] at hj
        simp only [Bool.false_eq_true, if_false] at hj
        obtain ⟨cj, h1, h2, h3⟩ := hinv.fromNode k j hj
        have hlt : j < hist.length := by
          rcases Nat.lt_or_ge j hist.length with hlt | hge
          · exact hlt
          · rw [List.getElem?_eq_none hge] at h1; cases h1
        refine ⟨cj, ?_, ?_, heff.kept k h3 hsu⟩
        · rw [List.getElem?_append_left hlt]; exact h1
        · rw [step_frame_get tbl n s s' hc h k hcr hsu]; exact h2
  · intro k hk hg
    rw [stepO_lookup] at hk
    rw [stepO_gone] at hg
    cases hsu : (suppressedOf n).contains k with
    | true => rw [hsu] at hg; simp at hg
    | false =>
      rw [hsu] at hk hg
      simp only [Bool.false_eq_true, if_false, Bool.or_false] at hk hg
      cases hcr : (createdOf n).contains k with
      | true => rw [hcr] at hk; simp at hk
      | false =>
        rw [hcr] at hk hg
        simp only [Bool.false_eq_true, if_false, Bool.not_false, Bool.and_true] at hk hg
        rw [step_frame_get tbl n s s' hc h k hcr hsu]
        exact hinv.untouched k hk hg
  · intro k hk hg
    rw [stepO_lookup] at hk
    rw [stepO_gone] at hg
    cases hsu : (suppressedOf n).contains k with
    | true => exact step_suppressed_absent tbl n s s' h k hsu
    | false =>
      rw [hsu] at hk hg
      simp only [Bool.false_eq_true, if_false, Bool.or_false] at hk hg
      cases hcr : (createdOf n).contains k with
      | true => rw [hcr] at hk; simp at hk
      | false =>
        rw [hcr] at hk hg
        simp only [Bool.false_eq_true, if_false, Bool.not_false, Bool.and_true] at hk hg
        have := hinv.absent k hk hg
        rw [has_iff_get, step_frame_get tbl n s s' hc h k hcr hsu, ← has_iff_get]
        exact this

/-- The invariant holds along every execution (pipelines of any length). -/
theorem oinv_execHist (tbl : ResolveTable) (c₀ : Ctx) :
    ∀ (ns : List Node) (hist : List Ctx) (st : OState) (s sf : Data × Ctx) (hs : List Ctx),
      (∀ n ∈ ns, nodeWF n = true ∧ construct n = none) →
      OInv c₀ hist st s → execHist tbl ns s = .ok (sf, hs) →
      OInv c₀ (hist ++ hs) (foldO ns hist.length st) sf
  | [], hist, st, s, sf, hs, _, hinv, h => by
    simp only [execHist] at h
    injection h with h; injection h with h1 h2; subst h1; subst h2
    simpa [foldO] using hinv
  | n :: ns, hist, st, s, sf, hs, hwf, hinv, h => by
    simp only [execHist] at h
    cases hstep : step tbl n s with
    | error e => rw [hstep] at h; cases h
    | ok s' =>
      rw [hstep] at h
      simp only at h
      cases hrest : execHist tbl ns s' with
      | error e => rw [hrest] at h; cases h
      | ok r =>
        obtain ⟨sf', h'⟩ := r
        rw [hrest] at h
        injection h with h; injection h with h1 h2; subst h1; subst h2
        have hn := hwf n (by simp)
        have h1 := oinv_step tbl c₀ hist st n s s' hn.1 hn.2 hstep hinv
        have h2 := oinv_execHist tbl c₀ ns (hist ++ [s'.2]) (stepO n hist.length st) s' sf' h'
          (fun m hm => hwf m (List.mem_cons_of_mem _ hm)) h1 hrest
        simpa [foldO, List.append_assoc] using h2

/-! ## `execHist` is the execution of C01, and its history is made of prefix runs -/

theorem execHist_fst (tbl : ResolveTable) :
    ∀ (ns : List Node) (i : Nat) (s sf : Data × Ctx) (hs : List Ctx),
      execHist tbl ns s = .ok (sf, hs) → execFrom tbl ns i s = .ok sf ∧ hs.length = ns.length
  | [], i, s, sf, hs, h => by
    simp only [execHist] at h
    injection h with h; injection h with h1 h2; subst h1; subst h2
    exact ⟨rfl, rfl⟩
  | n :: ns, i, s, sf, hs, h => by
    simp only [execHist] at h
    cases hstep : step tbl n s with
    | error e => rw [hstep] at h; cases h
    | ok s' =>
      rw [hstep] at h
      simp only at h
      cases hrest : execHist tbl ns s' with
      | error e => rw [hrest] at h; cases h
      | ok r =>
        obtain ⟨sf', h'⟩ := r
        rw [hrest] at h
        injection h with h; injection h with h1 h2; subst h1; subst h2
        have := execHist_fst tbl ns (i + 1) s' sf' h' hrest
        exact ⟨by simp [execFrom, hstep, this.1], by simp [this.2]⟩

/-- Entry `j` of the history is the context the first `j+1` nodes leave when run on their own. -/
theorem execHist_prefix (tbl : ResolveTable) :
    ∀ (ns : List Node) (s sf : Data × Ctx) (hs : List Ctx) (j : Nat) (cj : Ctx),
      execHist tbl ns s = .ok (sf, hs) → hs[j]? = some cj →
      ∃ dj, execFrom tbl (ns.take (j + 1)) 0 s = .ok (dj, cj)
  | [], s, sf, hs, j, cj, h, hj => by
    simp only [execHist] at h
    injection h with h; injection h with h1 h2; subst h2
    simp at hj
  | n :: ns, s, sf, hs, j, cj, h, hj => by
    simp only [execHist] at h
    cases hstep : step tbl n s with
    | error e => rw [hstep] at h; cases h
    | ok s' =>
      rw [hstep] at h
      simp only at h
      cases hrest : execHist tbl ns s' with
      | error e => rw [hrest] at h; cases h
      | ok r =>
        obtain ⟨sf', h'⟩ := r
        rw [hrest] at h
        injection h with h; injection h with h1 h2; subst h1; subst h2
        cases j with
        | zero =>
          simp only [List.getElem?_cons_zero, Option.some.injEq] at hj
          subst hj
          exact ⟨s'.1, by simp [execFrom, hstep]⟩
        | succ j =>
          simp only [List.getElem?_cons_succ] at hj
          obtain ⟨dj, hdj⟩ := execHist_prefix tbl ns s' sf' h' j cj hrest hj
          refine ⟨dj, ?_⟩
          simp only [List.take_succ_cons, execFrom, hstep]
          have := execFrom_shift tbl (ns.take (j + 1)) 0 1 s'
          rw [hdj] at this
          simpa using this
where
  execFrom_shift (tbl : ResolveTable) : ∀ (ns : List Node) (i k : Nat) (s : Data × Ctx),
      (match execFrom tbl ns i s with | .ok r => execFrom tbl ns (i + k) s = .ok r | .error _ => True)
    | [], i, k, s => by simp [execFrom]
    | n :: ns, i, k, s => by
      simp only [execFrom]
      cases hstep : step tbl n s with
      | error e => simp
      | ok s' =>
        simp only
        have := execFrom_shift tbl ns (i + 1) k s'
        have e : i + k + 1 = i + 1 + k := by omega
        rw [e]; exact this

/-! ## The origin theorems -/

/-- **Origin = node configuration.** The value is the configured one, whatever the context holds. -/
theorem origin_config_true (tbl : ResolveTable) (hT : precedenceOK tbl = true) (n : Node) (om : OMap) (c : Ctx) (p : PSig)
    (ho : originOf n om p = .config) : ∃ v, n.config.lookup p.name = some v ∧ resolve tbl n c p = .ok v := by
  unfold originOf at ho
  cases hcfg : n.config.lookup p.name with
  | some v => exact ⟨v, rfl, (resolve_precedence tbl hT n c p).1 v hcfg⟩
  | none =>
    simp only [hcfg, Option.isSome_none, Bool.false_eq_true, if_false] at ho
    split at ho
    · cases ho
    · split at ho <;> cases ho

/-- **Origin = node j.** For a pipeline prefix of any length: if the inspection reports that parameter `p`
    of the next node comes from node `j`, then `j` is an earlier node, and the value the node receives is
    the value key `p` had in the context right after node `j` ran (which is what the first `j+1` nodes
    leave when run on their own). -/
theorem origin_node_true (tbl : ResolveTable) (hT : precedenceOK tbl = true) (pre : List Node) (n : Node)
    (d₀ : Data) (c₀ : Ctx) (s : Data × Ctx) (hs : List Ctx)
    (hwf : ∀ m ∈ pre, nodeWF m = true ∧ construct m = none)
    (hrun : execHist tbl pre (d₀, c₀) = .ok (s, hs)) (p : PSig) (j : Nat)
    (ho : originOf n (foldO pre 0 OState.init).om p = .node j) :
    j < pre.length ∧
    ∃ dj cj v, execFrom tbl (pre.take (j + 1)) 0 (d₀, c₀) = .ok (dj, cj) ∧ cj.get p.name = some v ∧
      resolve tbl n s.2 p = .ok v := by
  have hinv := oinv_execHist tbl c₀ pre [] OState.init (d₀, c₀) s hs hwf (oinv_init d₀ c₀) hrun
  simp only [List.nil_append, List.length_nil] at hinv
  unfold originOf at ho
  cases hcfg : n.config.lookup p.name with
  | some v => simp [hcfg] at ho
  | none =>
    simp only [hcfg, Option.isSome_none, Bool.false_eq_true, if_false] at ho
    cases hom : (foldO pre 0 OState.init).om.lookup p.name with
    | none => rw [hom] at ho; simp only at ho; split at ho <;> cases ho
    | some j' =>
      rw [hom] at ho
      simp only at ho
      injection ho with ho; subst ho
      obtain ⟨cj, h1, h2, h3⟩ := hinv.fromNode p.name j' hom
      have hlen := (execHist_fst tbl pre 0 (d₀, c₀) s hs hrun).2
      have hlt : j' < pre.length := by
        rcases Nat.lt_or_ge j' hs.length with hlt | hge
        · omega
        · rw [List.getElem?_eq_none hge] at h1; cases h1
      obtain ⟨dj, hdj⟩ := execHist_prefix tbl pre (d₀, c₀) s hs j' cj hrun h1
      rw [has_iff_get] at h3
      cases hv : s.2.get p.name with
      | none => rw [hv] at h3; cases h3
      | some v =>
        refine ⟨hlt, dj, cj, v, hdj, ?_, (resolve_precedence tbl hT n s.2 p).2.1 hcfg v hv⟩
        rw [← h2, hv]

/-- **Origin = initial context.** If the inspection reports that parameter `p` is expected from the caller
    (and no earlier node deleted that key — otherwise the analysis rejects the pipeline), the node receives
    exactly what the caller supplied under that name, and fails as unresolved when the caller supplied nothing. -/
theorem origin_initial_true (tbl : ResolveTable) (hT : precedenceOK tbl = true) (pre : List Node) (n : Node)
    (d₀ : Data) (c₀ : Ctx) (s : Data × Ctx) (hs : List Ctx)
    (hwf : ∀ m ∈ pre, nodeWF m = true ∧ construct m = none)
    (hrun : execHist tbl pre (d₀, c₀) = .ok (s, hs)) (p : PSig)
    (ho : originOf n (foldO pre 0 OState.init).om p = .initial)
    (hg : (foldO pre 0 OState.init).gone.contains p.name = false) :
    resolve tbl n s.2 p = (match c₀.get p.name with | some v => .ok v | none => .error (.unresolved p.name)) := by
  have hinv := oinv_execHist tbl c₀ pre [] OState.init (d₀, c₀) s hs hwf (oinv_init d₀ c₀) hrun
  simp only [List.nil_append, List.length_nil] at hinv
  unfold originOf at ho
  cases hcfg : n.config.lookup p.name with
  | some v => simp [hcfg] at ho
  | none =>
    simp only [hcfg, Option.isSome_none, Bool.false_eq_true, if_false] at ho
    cases hom : (foldO pre 0 OState.init).om.lookup p.name with
    | some j' => rw [hom] at ho; cases ho
    | none =>
      rw [hom] at ho
      simp only at ho
      cases hd : p.dflt with
      | some dv => simp [hd] at ho
      | none =>
        have hget := hinv.untouched p.name hom hg
        cases hc : c₀.get p.name with
        | some v =>
          simp only
          exact (resolve_precedence tbl hT n s.2 p).2.1 hcfg v (by rw [hget, hc])
        | none =>
          simp only
          exact (resolve_precedence tbl hT n s.2 p).2.2.2 hcfg (by rw [hget, hc]) hd

/-- **Origin = default, one-pass report (partial).** A parameter the *first pass* classifies as defaulted receives
    its default provided the caller's context does not hold that name or an earlier node deleted the key.  Without
    that proviso the statement is false of the first pass alone — see `origin_default_untrue_witness` — which is why
    the inspection reclassifies in a second pass (`originOf2`, theorems `origin2_*`). -/
theorem origin_default_true_partial (tbl : ResolveTable) (hT : precedenceOK tbl = true) (pre : List Node) (n : Node)
    (d₀ : Data) (c₀ : Ctx) (s : Data × Ctx) (hs : List Ctx)
    (hwf : ∀ m ∈ pre, nodeWF m = true ∧ construct m = none)
    (hrun : execHist tbl pre (d₀, c₀) = .ok (s, hs)) (p : PSig)
    (ho : originOf n (foldO pre 0 OState.init).om p = .default)
    (hc₀ : c₀.has p.name = false ∨ (foldO pre 0 OState.init).gone.contains p.name = true) :
    ∃ dv, p.dflt = some dv ∧ resolve tbl n s.2 p = .ok dv := by
  have hinv := oinv_execHist tbl c₀ pre [] OState.init (d₀, c₀) s hs hwf (oinv_init d₀ c₀) hrun
  simp only [List.nil_append, List.length_nil] at hinv
  unfold originOf at ho
  cases hcfg : n.config.lookup p.name with
  | some v => simp [hcfg] at ho
  | none =>
    simp only [hcfg, Option.isSome_none, Bool.false_eq_true, if_false] at ho
    cases hom : (foldO pre 0 OState.init).om.lookup p.name with
    | some j' => rw [hom] at ho; cases ho
    | none =>
      rw [hom] at ho
      simp only at ho
      cases hd : p.dflt with
      | none => simp [hd] at ho
      | some dv =>
        have hnone : s.2.get p.name = none := by
          cases hg : (foldO pre 0 OState.init).gone.contains p.name with
          | false =>
            rw [hinv.untouched p.name hom hg]
            rcases hc₀ with hc₀ | hc₀
            · rw [has_iff_get] at hc₀
              cases hc : c₀.get p.name with
              | none => rfl
              | some v => rw [hc] at hc₀; cases hc₀
            · rw [hg] at hc₀; cases hc₀
          | true =>
            have := hinv.absent p.name hom hg
            rw [has_iff_get] at this
            cases hc : s.2.get p.name with
            | none => rfl
            | some v => rw [hc] at this; cases this
        exact ⟨dv, rfl, (resolve_precedence tbl hT n s.2 p).2.2.1 hcfg hnone dv hd⟩

/-! ## Acceptance by the flow analysis supplies the side condition of `origin_initial_true` -/

/-- The flow analysis and the origin analysis walk the pipeline with the same bookkeeping. -/
structure SimAO (ast : AState) (ost : OState) : Prop where
  gone : ast.gone = ost.gone
  known : ∀ k, ast.known.contains k = (ost.om.lookup k).isSome

theorem simAO_init (dtype : String) : SimAO (initState dtype) OState.init :=
  ⟨rfl, by intro k; simp [initState, OState.init]⟩

theorem simAO_step (n : Node) (i : Nat) (ast ast' : AState) (ost : OState) (need : List String)
    (h : stepA n ast = .ok (need, ast')) (hsim : SimAO ast ost) :
    SimAO ast' (stepO n i ost) ∧ ∀ k ∈ neededKeys n ast, ast.gone.contains k = false := by
  unfold stepA at h
  split at h
  · cases h
  · split at h
    · cases h
    · simp only at h
      split at h
      · cases h
      · rename_i hfind
        injection h with h; injection h with _ h2; subst h2
        refine ⟨⟨?_, ?_⟩, ?_⟩
        · simp only [stepO, hsim.gone]
        · intro k
          rw [stepO_lookup]
          have hk := hsim.known k
          rw [Bool.eq_iff_iff]
          simp only [List.mem_filter, List.mem_append, Bool.not_eq_true',
            List.contains_eq_mem, decide_eq_false_iff_not, decide_eq_true_eq] at hk ⊢
          by_cases hsu : k ∈ suppressedOf n
          · simp [hsu]
          · by_cases hcr : k ∈ createdOf n
            · simp [hsu, hcr]
            · simp only [hsu, hcr, or_false, not_false_eq_true, and_true, if_false]
              rw [← hk]; simp
        · intro k hk
          have := List.find?_eq_none.mp hfind k hk
          simpa using this

/-- After any accepted prefix the two analyses are in corresponding states, and the next node passed the
    deleted-key check. -/
theorem simAO_prefix : ∀ (pre : List Node) (n : Node) (post : List Node) (i : Nat) (ast : AState) (ost : OState) (req : List String),
    analyseFrom (pre ++ n :: post) i ast = .ok req → SimAO ast ost →
    ∃ ast₁, SimAO ast₁ (foldO pre i ost) ∧ ∀ k ∈ neededKeys n ast₁, ast₁.gone.contains k = false
  | [], n, post, i, ast, ost, req, h, hsim => by
    simp only [List.nil_append, analyseFrom] at h
    split at h
    · cases h
    · rename_i need ast' hstep
      exact ⟨ast, by simpa [foldO] using hsim, (simAO_step n i ast ast' ost need hstep hsim).2⟩
  | m :: pre, n, post, i, ast, ost, req, h, hsim => by
    simp only [List.cons_append, analyseFrom] at h
    split at h
    · cases h
    · rename_i need ast' hstep
      split at h
      · cases h
      · rename_i rest hrest
        have h1 := (simAO_step m i ast ast' ost need hstep hsim).1
        simpa [foldO] using simAO_prefix pre n post (i + 1) ast' (stepO m i ost) rest hrest h1

/-- **Origin = initial context, for accepted pipelines.** In a pipeline the flow analysis accepts, a processor
    parameter reported as expected from the caller receives exactly what the caller supplied under that name. -/
theorem origin_initial_true_of_accepted (tbl : ResolveTable) (hT : precedenceOK tbl = true)
    (pre : List Node) (n : Node) (post : List Node) (d₀ : Data) (c₀ : Ctx) (s : Data × Ctx) (hs : List Ctx) (req : List String)
    (hacc : analyse (pre ++ n :: post) d₀.ty = .ok req)
    (hwf : ∀ m ∈ pre, nodeWF m = true ∧ construct m = none)
    (hrun : execHist tbl pre (d₀, c₀) = .ok (s, hs)) (p : PSig) (hp : p ∈ n.params)
    (ho : originOf n (foldO pre 0 OState.init).om p = .initial) :
    resolve tbl n s.2 p = (match c₀.get p.name with | some v => .ok v | none => .error (.unresolved p.name)) := by
  obtain ⟨ast₁, hsim, hneed⟩ := simAO_prefix pre n post 0 (initState d₀.ty) OState.init req hacc (simAO_init _)
  refine origin_initial_true tbl hT pre n d₀ c₀ s hs hwf hrun p ho ?_
  rw [← hsim.gone]
  apply hneed
  -- p is one of the needed keys: not configured, not produced by an earlier node, no default
  unfold originOf at ho
  cases hcfg : n.config.lookup p.name with
  | some v => simp [hcfg] at ho
  | none =>
    simp only [hcfg, Option.isSome_none, Bool.false_eq_true, if_false] at ho
    cases hom : (foldO pre 0 OState.init).om.lookup p.name with
    | some j' => rw [hom] at ho; cases ho
    | none =>
      rw [hom] at ho
      simp only at ho
      cases hd : p.dflt with
      | some dv => simp [hd] at ho
      | none =>
        have hk : ast₁.known.contains p.name = false := by rw [hsim.known, hom]; rfl
        simp only [neededKeys, List.mem_append, List.mem_map, List.mem_filter]
        have hk' : ¬ p.name ∈ ast₁.known := by simpa using hk
        exact Or.inl ⟨p, ⟨hp, by simp [hcfg, hk', hd]⟩, rfl⟩

/-! ## The two-pass report is true when the initial context holds exactly the required keys -/

theorem originOf2_config (n : Node) (st : OState) (req : List String) (p : PSig) :
    originOf2 n st req p = .config ↔ originOf n st.om p = .config := by
  unfold originOf2
  cases h : originOf n st.om p <;> simp
  split <;> simp

theorem originOf2_node (n : Node) (st : OState) (req : List String) (p : PSig) (j : Nat) :
    originOf2 n st req p = .node j ↔ originOf n st.om p = .node j := by
  unfold originOf2
  cases h : originOf n st.om p <;> simp
  split <;> simp

/-- **Origin = default, as reported after the second pass.** For pipelines of any length, when the caller's context
    holds exactly the required keys (`c₀.has k ↔ k ∈ req`), a parameter reported as defaulted receives its default. -/
theorem origin2_default_true (tbl : ResolveTable) (hT : precedenceOK tbl = true) (pre : List Node) (n : Node)
    (d₀ : Data) (c₀ : Ctx) (s : Data × Ctx) (hs : List Ctx) (req : List String)
    (hexact : ∀ k, c₀.has k = req.contains k)
    (hwf : ∀ m ∈ pre, nodeWF m = true ∧ construct m = none)
    (hrun : execHist tbl pre (d₀, c₀) = .ok (s, hs)) (p : PSig)
    (ho : originOf2 n (foldO pre 0 OState.init) req p = .default) :
    ∃ dv, p.dflt = some dv ∧ resolve tbl n s.2 p = .ok dv := by
  unfold originOf2 at ho
  cases h1 : originOf n (foldO pre 0 OState.init).om p with
  | config => rw [h1] at ho; cases ho
  | node j => rw [h1] at ho; cases ho
  | initial => rw [h1] at ho; cases ho
  | default =>
    rw [h1] at ho
    simp only at ho
    refine origin_default_true_partial tbl hT pre n d₀ c₀ s hs hwf hrun p h1 ?_
    cases hr : req.contains p.name with
    | false => left; rw [hexact, hr]
    | true =>
      cases hg : (foldO pre 0 OState.init).gone.contains p.name with
      | true => right; rfl
      | false => rw [hr, hg] at ho; simp at ho

/-- **Origin = initial context, as reported after the second pass.** A parameter reported as coming from the initial
    context — by the first pass, or reclassified from "default" by the second — receives what the caller supplied,
    provided no earlier node deleted the key (which acceptance guarantees for first-pass reports, and the second pass
    checks itself) and the caller did supply it (which "every required key is supplied" guarantees). -/
theorem origin2_initial_true (tbl : ResolveTable) (hT : precedenceOK tbl = true) (pre : List Node) (n : Node)
    (d₀ : Data) (c₀ : Ctx) (s : Data × Ctx) (hs : List Ctx) (req : List String)
    (hwf : ∀ m ∈ pre, nodeWF m = true ∧ construct m = none)
    (hrun : execHist tbl pre (d₀, c₀) = .ok (s, hs)) (p : PSig)
    (ho : originOf2 n (foldO pre 0 OState.init) req p = .initial)
    (hg : (foldO pre 0 OState.init).gone.contains p.name = false)
    (hc : c₀.has p.name = true) :
    ∃ v, c₀.get p.name = some v ∧ resolve tbl n s.2 p = .ok v := by
  rw [has_iff_get] at hc
  cases hv : c₀.get p.name with
  | none => rw [hv] at hc; cases hc
  | some v =>
    refine ⟨v, rfl, ?_⟩
    unfold originOf2 at ho
    cases h1 : originOf n (foldO pre 0 OState.init).om p with
    | config => rw [h1] at ho; cases ho
    | node j => rw [h1] at ho; cases ho
    | initial =>
      have := origin_initial_true tbl hT pre n d₀ c₀ s hs hwf hrun p h1 hg
      rw [hv] at this; exact this
    | default =>
      -- reclassified: not configured, not produced by an earlier node, not deleted: the caller's value wins over the default
      have hinv := oinv_execHist tbl c₀ pre [] OState.init (d₀, c₀) s hs hwf (oinv_init d₀ c₀) hrun
      simp only [List.nil_append, List.length_nil] at hinv
      unfold originOf at h1
      cases hcfg : n.config.lookup p.name with
      | some w => simp [hcfg] at h1
      | none =>
        simp only [hcfg, Option.isSome_none, Bool.false_eq_true, if_false] at h1
        cases hom : (foldO pre 0 OState.init).om.lookup p.name with
        | some j' => rw [hom] at h1; cases h1
        | none =>
          have hget := hinv.untouched p.name hom hg
          exact (resolve_precedence tbl hT n s.2 p).2.1 hcfg v (by rw [hget, hv])

/-! ## Capstone: every reported origin is true of accepted pipelines run with exactly the required keys -/

theorem stepA_need (n : Node) (ast ast' : AState) (need : List String) (h : stepA n ast = .ok (need, ast')) :
    need = neededKeys n ast := by
  unfold stepA at h
  split at h
  · cases h
  · split at h
    · cases h
    · simp only at h
      split at h
      · cases h
      · injection h with h; injection h with h1 _; exact h1.symm

/-- The keys the node after an accepted prefix needs are among the pipeline's required keys. -/
theorem needed_in_req : ∀ (pre : List Node) (n : Node) (post : List Node) (i : Nat) (ast : AState) (ost : OState) (req : List String),
    analyseFrom (pre ++ n :: post) i ast = .ok req → SimAO ast ost →
    ∃ ast₁, SimAO ast₁ (foldO pre i ost) ∧ (∀ k ∈ neededKeys n ast₁, ast₁.gone.contains k = false)
      ∧ (∀ k ∈ neededKeys n ast₁, k ∈ req)
  | [], n, post, i, ast, ost, req, h, hsim => by
    simp only [List.nil_append, analyseFrom] at h
    split at h
    · cases h
    · rename_i need ast' hstep
      split at h
      · cases h
      · rename_i rest hrest
        injection h with h; subst h
        refine ⟨ast, by simpa [foldO] using hsim, (simAO_step n i ast ast' ost need hstep hsim).2, ?_⟩
        intro k hk
        rw [stepA_need n ast ast' need hstep]
        exact List.mem_append_left _ hk
  | m :: pre, n, post, i, ast, ost, req, h, hsim => by
    simp only [List.cons_append, analyseFrom] at h
    split at h
    · cases h
    · rename_i need ast' hstep
      split at h
      · cases h
      · rename_i rest hrest
        injection h with h; subst h
        have h1 := (simAO_step m i ast ast' ost need hstep hsim).1
        obtain ⟨ast₁, hs1, hg1, hr1⟩ := needed_in_req pre n post (i + 1) ast' (stepO m i ost) rest hrest h1
        exact ⟨ast₁, by simpa [foldO] using hs1, hg1, fun k hk => List.mem_append_right _ (hr1 k hk)⟩

/-- **C02 (origins, capstone).** Take any pipeline the flow analysis accepts, with required keys `req`, and run it
    from an initial context that holds exactly those keys.  For every node (reached by the run) and every parameter
    of its processor, the origin the inspection reports — after its second pass — is where the run-time value
    actually comes from: the configured value; the value key `p` had right after node `j` ran; the caller's value; or
    the processor default. -/
theorem origin_report_true (tbl : ResolveTable) (hT : precedenceOK tbl = true)
    (pre : List Node) (n : Node) (post : List Node) (d₀ : Data) (c₀ : Ctx) (s : Data × Ctx) (hs : List Ctx) (req : List String)
    (hacc : analyse (pre ++ n :: post) d₀.ty = .ok req)
    (hexact : ∀ k, c₀.has k = req.contains k)
    (hwf : ∀ m ∈ pre, nodeWF m = true ∧ construct m = none)
    (hrun : execHist tbl pre (d₀, c₀) = .ok (s, hs)) (p : PSig) (hp : p ∈ n.params) :
    match originOf2 n (foldO pre 0 OState.init) req p with
    | .config => ∃ v, n.config.lookup p.name = some v ∧ resolve tbl n s.2 p = .ok v
    | .node j => j < pre.length ∧ ∃ dj cj v, execFrom tbl (pre.take (j + 1)) 0 (d₀, c₀) = .ok (dj, cj) ∧
        cj.get p.name = some v ∧ resolve tbl n s.2 p = .ok v
    | .initial => ∃ v, c₀.get p.name = some v ∧ resolve tbl n s.2 p = .ok v
    | .default => ∃ dv, p.dflt = some dv ∧ resolve tbl n s.2 p = .ok dv := by
  obtain ⟨ast₁, hsim, hgone, hreq⟩ := needed_in_req pre n post 0 (initState d₀.ty) OState.init req hacc (simAO_init _)
  cases ho : originOf2 n (foldO pre 0 OState.init) req p with
  | config =>
    simp only
    exact origin_config_true tbl hT n _ s.2 p ((originOf2_config n _ req p).mp ho)
  | node j =>
    simp only
    exact origin_node_true tbl hT pre n d₀ c₀ s hs hwf hrun p j ((originOf2_node n _ req p j).mp ho)
  | default =>
    simp only
    exact origin2_default_true tbl hT pre n d₀ c₀ s hs req hexact hwf hrun p ho
  | initial =>
    simp only
    -- either the first pass said so (then p is a needed key: required and not deleted), or the second pass reclassified
    have hcases : (foldO pre 0 OState.init).gone.contains p.name = false ∧ req.contains p.name = true := by
      unfold originOf2 at ho
      cases h1 : originOf n (foldO pre 0 OState.init).om p with
      | config => rw [h1] at ho; cases ho
      | node j => rw [h1] at ho; cases ho
      | default =>
        rw [h1] at ho
        simp only at ho
        cases hr : req.contains p.name with
        | false => rw [hr] at ho; simp at ho
        | true =>
          cases hg : (foldO pre 0 OState.init).gone.contains p.name with
          | true => rw [hr, hg] at ho; simp at ho
          | false => exact ⟨rfl, rfl⟩
      | initial =>
        -- p is one of the needed keys of n
        have hmem : p.name ∈ neededKeys n ast₁ := by
          unfold originOf at h1
          cases hcfg : n.config.lookup p.name with
          | some v => simp [hcfg] at h1
          | none =>
            simp only [hcfg, Option.isSome_none, Bool.false_eq_true, if_false] at h1
            cases hom : (foldO pre 0 OState.init).om.lookup p.name with
            | some j' => rw [hom] at h1; cases h1
            | none =>
              rw [hom] at h1
              simp only at h1
              cases hd : p.dflt with
              | some dv => simp [hd] at h1
              | none =>
                have hk : ast₁.known.contains p.name = false := by rw [hsim.known, hom]; rfl
                have hk' : ¬ p.name ∈ ast₁.known := by simpa using hk
                simp only [neededKeys, List.mem_append, List.mem_map, List.mem_filter]
                exact Or.inl ⟨p, ⟨hp, by simp [hcfg, hk', hd]⟩, rfl⟩
        refine ⟨?_, ?_⟩
        · rw [← hsim.gone]; exact hgone _ hmem
        · simpa using hreq _ hmem
    exact origin2_initial_true tbl hT pre n d₀ c₀ s hs req hwf hrun p ho hcases.1 (by rw [hexact]; exact hcases.2)

/-! ## Where the report is untrue: the recorded finding, as a theorem about the model -/

/-- The documented precedence table. -/
def docTable : ResolveTable :=
  [((true, true, true), .config), ((true, true, false), .config), ((true, false, true), .config), ((true, false, false), .config),
   ((false, true, true), .context), ((false, true, false), .context), ((false, false, true), .default), ((false, false, false), .none_)]

/-- `[TSourceDef (v defaults to "d0"), delete:v]` with the initial context holding exactly the required key `v`:
    the analysis accepts and requires exactly `v`; the first pass classifies node 0's `v` as defaulted; at run time
    node 0 receives the caller's value; the second pass reports "initial context".  (The one-pass report was a defect
    of /repo found by `props/c02.py` and repaired there; this theorem keeps the failing pipeline.) -/
theorem origin_default_untrue_witness :
    precedenceOK docTable = true
    ∧ (analyse [srcDef, del "v"] "NoDataType").toOption = some ["v", "v"]
    ∧ originOf srcDef (foldO [] 0 OState.init).om ⟨"v", some (Val.str "d0")⟩ = .default
    ∧ resolve docTable srcDef [("v", Val.str "from-caller")] ⟨"v", some (Val.str "d0")⟩ = .ok (Val.str "from-caller")
    ∧ (exec docTable [srcDef, del "v"] (Data.nodata, [("v", Val.str "from-caller")])).toOption.isSome = true
    ∧ originOf2 srcDef (foldO [] 0 OState.init) ["v", "v"] ⟨"v", some (Val.str "d0")⟩ = .initial := by
  refine ⟨by decide, by decide, by decide, by rfl, by decide, by decide⟩

/-! ## Non-vacuity -/

def op4 : Node :=
  { op1 with params := [⟨"a", none⟩, ⟨"z", none⟩, ⟨"q", some Val.null⟩, ⟨"w", none⟩], config := [("w", Val.str "cfg")] }

/-- A pipeline in which all four origins occur and the hypotheses of the theorems hold. -/
example :
    origins [srcDef, probeTo "a", op4]
      = [[("v", .default)], [], [("a", .node 1), ("z", .initial), ("q", .default), ("w", .config)]]
    ∧ (∀ m ∈ [srcDef, probeTo "a"], nodeWF m = true ∧ construct m = none)
    ∧ (execHist docTable [srcDef, probeTo "a"] (Data.nodata, [])).toOption.isSome = true := by
  refine ⟨by decide, by decide, by decide⟩

/-- The hypotheses of `origin_report_true` are satisfiable: an accepted pipeline with all four origins, the initial
    context holding exactly the required key `z`, a well-formed prefix that runs. -/
example :
    (analyse ([srcDef, probeTo "a"] ++ op4 :: []) "NoDataType").toOption = some ["z"]
    ∧ (∀ k, Ctx.has [("z", Val.str "Z")] k = ["z"].contains k)
    ∧ (∀ m ∈ [srcDef, probeTo "a"], nodeWF m = true ∧ construct m = none)
    ∧ (execHist docTable [srcDef, probeTo "a"] (Data.nodata, [("z", Val.str "Z")])).toOption.isSome = true
    ∧ (op4.params.map (fun p => originOf2 op4 (foldO [srcDef, probeTo "a"] 0 OState.init) ["z"] p))
        = [.node 1, .initial, .default, .config] := by
  refine ⟨by decide, ?_, by decide, by decide, by decide⟩
  intro k
  by_cases h : k = "z"
  · subst h; decide
  · have : (k == "z") = false := by simpa using h
    simp [Ctx.has, List.lookup, this, h]

end SemantivaModel.Inspect
