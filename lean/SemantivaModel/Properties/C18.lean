import SemantivaModel.Model.Residue
/-!
# C18 — repeated execution leaves no per-run residue

* `cached_bounded` — if generated classes are registered once per name, the registry after N ≥ 1 runs of the same
  configuration is the registry after the warm-up run, for every N: the cost of run N does not depend on N.
* `uncached_linear` — if every execution registers its freshly generated classes, the registry grows by exactly
  `generated.length` per run (the behaviour of the unchanged tree: a recorded finding, see DESIGN §7 C18).
* `channels_bounded` / `channels_linear` — the same for per-job transport channels.
-/
namespace SemantivaModel.Residue

theorem addNew_subset (reg l : List String) : ∀ x ∈ reg, x ∈ addNew reg l := by
  induction l generalizing reg with
  | nil => intro x hx; exact hx
  | cons n ns ih =>
    intro x hx
    apply ih
    split
    · exact hx
    · exact List.mem_append_left _ hx

theorem addNew_mem (reg l : List String) : ∀ x ∈ l, x ∈ addNew reg l := by
  induction l generalizing reg with
  | nil => intro x hx; cases hx
  | cons n ns ih =>
    intro x hx
    rcases List.mem_cons.mp hx with rfl | hx
    · show x ∈ addNew (if x ∈ reg then reg else reg ++ [x]) ns
      apply addNew_subset
      by_cases hm : x ∈ reg
      · simp [hm]
      · simp [hm]
    · exact ih _ x hx

theorem addNew_fixed (reg l : List String) (h : ∀ x ∈ l, x ∈ reg) : addNew reg l = reg := by
  induction l generalizing reg with
  | nil => rfl
  | cons n ns ih =>
    have hn : n ∈ reg := h n List.mem_cons_self
    simp only [addNew, hn, if_true]
    exact ih reg (fun x hx => h x (List.mem_cons_of_mem _ hx))

/-- one warm-up run makes the registry a fixed point of further runs -/
theorem runOnce_idem (reg g : List String) : runOnce true (runOnce true reg g) g = runOnce true reg g := by
  simp only [runOnce, if_true]
  exact addNew_fixed _ g (addNew_mem reg g)

theorem runs_fixed (g reg : List String) (h : runOnce true reg g = reg) (N : Nat) : runs true g reg N = reg := by
  induction N with
  | zero => rfl
  | succ n ih => simp only [runs, h]; exact ih

/-- **C18 (bounded).** -/
theorem cached_bounded (g reg : List String) (N : Nat) (hN : 1 ≤ N) : runs true g reg N = runs true g reg 1 := by
  cases N with
  | zero => omega
  | succ n =>
    simp only [runs]
    exact runs_fixed g _ (runOnce_idem reg g) n

/-- **The unchanged tree.** Registering every freshly generated class makes the registry grow linearly. -/
theorem uncached_linear (g reg : List String) (N : Nat) : (runs false g reg N).length = reg.length + N * g.length := by
  induction N generalizing reg with
  | zero => simp [runs]
  | succ n ih =>
    simp only [runs, runOnce]
    rw [ih]
    simp only [Bool.false_eq_true, if_false, List.length_append]
    rw [Nat.add_mul]; omega

theorem channels_bounded (perJob : Nat) (j j' : Nat) : channelsAfter true perJob j = channelsAfter true perJob j' := rfl

theorem channels_linear (perJob j : Nat) : channelsAfter false perJob j = perJob * j := rfl

example : (runs true ["A_Node", "B_Node"] ["X"] 7).length = 3 ∧ (runs false ["A_Node", "B_Node"] ["X"] 7).length = 15 := by decide

theorem addNew_length_le (reg l : List String) : (addNew reg l).length ≤ reg.length + l.length := by
  induction l generalizing reg with
  | nil => simp [addNew]
  | cons n ns ih =>
    simp only [addNew]
    split
    · have := ih reg; simp only [List.length_cons]; omega
    · have := ih (reg ++ [n]); simp only [List.length_append, List.length_cons, List.length_nil] at this ⊢; omega

/-- **C18 (bound).** With caching, the registry never exceeds its initial size plus one entry per generated class,
    however many times the configuration is executed. -/
theorem cached_size_bound (g reg : List String) (N : Nat) : (runs true g reg N).length ≤ reg.length + g.length := by
  cases N with
  | zero => simp [runs]
  | succ n =>
    rw [cached_bounded g reg (n + 1) (by omega)]
    simp only [runs, runOnce, if_true]
    exact addNew_length_le reg g

/-- Without caching no bound exists: for a configuration that generates at least one class, every bound is exceeded. -/
theorem uncached_unbounded (g reg : List String) (hg : g ≠ []) (B : Nat) : ∃ N, B < (runs false g reg N).length := by
  refine ⟨B + 1, ?_⟩
  rw [uncached_linear]
  have : 1 ≤ g.length := by cases g with | nil => exact absurd rfl hg | cons _ _ => simp
  have : B + 1 ≤ (B + 1) * g.length := Nat.le_mul_of_pos_right _ this
  omega

end SemantivaModel.Residue
