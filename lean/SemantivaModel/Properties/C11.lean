import SemantivaModel.Proofs.SafeEval
/-!
# C11 — sweep expressions are confined to the safe grammar and their own variables

Property theorems. The generic theorem `accepts_confines` is for *every* policy satisfying
the decidable side condition `Policy.total`, every grammar, every set of declared names and
every tree of *any* depth.  `Tie/C11.lean` instantiates it with the policy the translator
extracted from `/repo` on this run.
-/
namespace SemantivaModel.SafeEval

mutual
theorem accepts_confines_tree {P : Policy} {G : Grammar} (hP : P.total G = true) (names : List String) :
    ∀ t : Tree, wellFormed G t = true → accepts P names t = true → confined names t = true
  | .node kind ident fields => by
    intro hwf hacc
    unfold accepts at hacc
    unfold confined
    unfold wellFormed at hwf
    by_cases hN : kind = "Name"
    · simp only [hN, if_true] at hacc ⊢
      simp only [Bool.and_eq_true, Bool.or_eq_true, Bool.not_eq_true'] at hacc
      have hnc := total_nameChecked hP
      rcases hacc.2 with h | h
      · rw [hnc] at h; exact absurd h (by decide)
      · exact h
    · simp only [hN, if_false] at hacc ⊢
      by_cases hC : kind = "Call"
      · simp only [hC, if_true] at hacc ⊢
        simp only [Bool.and_eq_true] at hacc
        subst hC
        exact accepts_confines_call hP names hacc.1 fields hwf hacc.2
      · simp only [hC, if_false] at hacc ⊢
        simp only [Bool.and_eq_true] at hacc ⊢
        exact ⟨total_kind hP hacc.1, accepts_confines_fields hP names kind hacc.1 hN hC fields hwf hacc.2⟩

theorem accepts_confines_fields {P : Policy} {G : Grammar} (hP : P.total G = true) (names : List String)
    (kind : String) (hk : P.kinds.contains kind = true) (hN : kind ≠ "Name") (hC : kind ≠ "Call") :
    ∀ fs : List (String × List Tree), wellFormedFields G kind fs = true →
      acceptsFields P names kind fs = true → confinedFields names fs = true
  | [] => by intros; simp [confinedFields]
  | (f, cs) :: rest => by
    intro hwf hacc
    unfold wellFormedFields at hwf
    unfold acceptsFields at hacc
    unfold confinedFields
    simp only [Bool.and_eq_true] at hwf hacc ⊢
    refine ⟨?_, accepts_confines_fields hP names kind hk hN hC rest hwf.2 hacc.2⟩
    have hr := total_rule hP hk hwf.1.1 hN (fun h => hC h.1)
    cases hrule : P.rule kind f with
    | visited =>
      rw [hrule] at hacc
      exact accepts_confines_list hP names cs hwf.1.2 hacc.1
    | ignored => exact absurd hrule hr
    | mustBeEmpty =>
      rw [hrule] at hacc
      have : cs = [] := by simpa using hacc.1
      subst this; simp [confinedList]

theorem accepts_confines_call {P : Policy} {G : Grammar} (hP : P.total G = true) (names : List String)
    (hk : P.kinds.contains "Call" = true) :
    ∀ fs : List (String × List Tree), wellFormedFields G "Call" fs = true →
      acceptsCallFields P names fs = true → confinedCallFields names fs = true
  | [] => by intros; simp [confinedCallFields]
  | (f, cs) :: rest => by
    intro hwf hacc
    unfold wellFormedFields at hwf
    unfold acceptsCallFields at hacc
    unfold confinedCallFields
    simp only [Bool.and_eq_true] at hwf hacc ⊢
    refine ⟨?_, accepts_confines_call hP names hk rest hwf.2 hacc.2⟩
    by_cases hf : f = "func"
    · simp only [hf, if_true] at hacc ⊢
      have h1 := hacc.1
      split at h1
      · rename_i c
        exact isDirectCallTarget_mono (fun g hg => total_func hP hg) c h1
      · exact absurd h1 (by decide)
    · simp only [hf, if_false] at hacc ⊢
      have hr := total_rule hP hk hwf.1.1 (by decide) (fun h => hf h.2)
      cases hrule : P.rule "Call" f with
      | visited =>
        rw [hrule] at hacc
        exact accepts_confines_list hP names cs hwf.1.2 hacc.1
      | ignored => exact absurd hrule hr
      | mustBeEmpty =>
        rw [hrule] at hacc
        have : cs = [] := by simpa using hacc.1
        subst this; simp [confinedList]

theorem accepts_confines_list {P : Policy} {G : Grammar} (hP : P.total G = true) (names : List String) :
    ∀ cs : List Tree, wellFormedList G cs = true → acceptsList P names cs = true → confinedList names cs = true
  | [] => by intros; simp [confinedList]
  | c :: cs => by
    intro hwf hacc
    unfold wellFormedList at hwf
    unfold acceptsList at hacc
    unfold confinedList
    simp only [Bool.and_eq_true] at hwf hacc ⊢
    exact ⟨accepts_confines_tree hP names c hwf.1 hacc.1, accepts_confines_list hP names cs hwf.2 hacc.2⟩
end

/-- **C11 (acceptance).** Whatever a total policy accepts is confined, at every depth and in every
    child position. -/
theorem accepts_confines {P : Policy} {G : Grammar} (hP : P.total G = true) (names : List String)
    (t : Tree) (hwf : wellFormed G t = true) (hacc : accepts P names t = true) :
    confined names t = true :=
  accepts_confines_tree hP names t hwf hacc

/-- Contrapositive, the form the property is phrased in: anything not confined is rejected. -/
theorem unconfined_rejected {P : Policy} {G : Grammar} (hP : P.total G = true) (names : List String)
    (t : Tree) (hwf : wellFormed G t = true) (hbad : confined names t = false) :
    accepts P names t = false := by
  cases h : accepts P names t with
  | false => rfl
  | true => rw [accepts_confines hP names t hwf h] at hbad; exact absurd hbad (by decide)

/-! ### Variables read by an accepted expression -/

mutual
/-- Names occurring in variable position (everything but direct call targets). -/
def varsOf : Tree → List String
  | .node kind ident fields =>
    if kind = "Name" then (match ident with | some x => [x] | none => [])
    else if kind = "Call" then varsOfCallFields fields
    else varsOfFields fields
def varsOfFields : List (String × List Tree) → List String
  | [] => []
  | (_, cs) :: rest => varsOfList cs ++ varsOfFields rest
def varsOfCallFields : List (String × List Tree) → List String
  | [] => []
  | (f, cs) :: rest => (if f = "func" then [] else varsOfList cs) ++ varsOfCallFields rest
def varsOfList : List Tree → List String
  | [] => []
  | c :: cs => varsOf c ++ varsOfList cs
end

mutual
theorem confined_vars_tree (names : List String) :
    ∀ t : Tree, confined names t = true → ∀ x ∈ varsOf t, names.contains x = true
  | .node kind ident fields => by
    intro h x hx
    unfold confined at h
    unfold varsOf at hx
    by_cases hN : kind = "Name"
    · simp only [hN, if_true] at h hx
      cases ident with
      | none => simp at hx
      | some y => simp at hx; subst hx; simpa using h
    · simp only [hN, if_false] at h hx
      by_cases hC : kind = "Call"
      · simp only [hC, if_true] at h hx
        exact confined_vars_call names fields h x hx
      · simp only [hC, if_false, Bool.and_eq_true] at h hx
        exact confined_vars_fields names fields h.2 x hx
theorem confined_vars_fields (names : List String) :
    ∀ fs : List (String × List Tree), confinedFields names fs = true → ∀ x ∈ varsOfFields fs, names.contains x = true
  | [] => by intro _ x hx; simp [varsOfFields] at hx
  | (f, cs) :: rest => by
    intro h x hx
    unfold confinedFields at h
    unfold varsOfFields at hx
    simp only [Bool.and_eq_true] at h
    rcases List.mem_append.mp hx with hx | hx
    · exact confined_vars_list names cs h.1 x hx
    · exact confined_vars_fields names rest h.2 x hx
theorem confined_vars_call (names : List String) :
    ∀ fs : List (String × List Tree), confinedCallFields names fs = true → ∀ x ∈ varsOfCallFields fs, names.contains x = true
  | [] => by intro _ x hx; simp [varsOfCallFields] at hx
  | (f, cs) :: rest => by
    intro h x hx
    unfold confinedCallFields at h
    unfold varsOfCallFields at hx
    simp only [Bool.and_eq_true] at h
    rcases List.mem_append.mp hx with hx | hx
    · by_cases hf : f = "func"
      · simp [hf] at hx
      · simp only [hf, if_false] at h hx
        exact confined_vars_list names cs h.1 x hx
    · exact confined_vars_call names rest h.2 x hx
theorem confined_vars_list (names : List String) :
    ∀ cs : List Tree, confinedList names cs = true → ∀ x ∈ varsOfList cs, names.contains x = true
  | [] => by intro _ x hx; simp [varsOfList] at hx
  | c :: cs => by
    intro h x hx
    unfold confinedList at h
    unfold varsOfList at hx
    simp only [Bool.and_eq_true] at h
    rcases List.mem_append.mp hx with hx | hx
    · exact confined_vars_tree names c h.1 x hx
    · exact confined_vars_list names cs h.2 x hx
end

/-- **C11 (names).** An accepted expression mentions, in variable position, only declared sweep
    variables; every other identifier in it is a direct call of a documented function. -/
theorem accepted_reads_only_declared {P : Policy} {G : Grammar} (hP : P.total G = true)
    (names : List String) (t : Tree) (hwf : wellFormed G t = true) (hacc : accepts P names t = true) :
    ∀ x ∈ varsOf t, names.contains x = true :=
  confined_vars_tree names t (accepts_confines hP names t hwf hacc)

/-! ### Non-vacuity: a concrete total policy, a tree it accepts, and trees it must reject -/

def demoGrammar : Grammar :=
  [("Expression", ["body"]), ("BinOp", ["left", "op", "right"]), ("Call", ["func", "args", "keywords"]),
   ("keyword", ["value"]), ("Name", ["ctx"]), ("Constant", []), ("Add", []), ("Load", []), ("Lambda", ["args", "body"])]

def demoPolicy : Policy :=
  { kinds := ["Expression", "BinOp", "Call", "Name", "Constant", "Add", "Load", "keyword"],
    funcs := ["max"],
    rules := [(("Expression", "body"), .visited), (("BinOp", "left"), .visited), (("BinOp", "op"), .visited),
              (("BinOp", "right"), .visited), (("Call", "args"), .visited), (("Call", "keywords"), .visited),
              (("keyword", "value"), .visited)],
    nameChecked := true }

def nameT (x : String) : Tree := .node "Name" (some x) [("ctx", [.node "Load" none []])]
/-- `max(x + 1, 2)` -/
def demoGood : Tree :=
  .node "Expression" none [("body", [.node "Call" none
    [("func", [nameT "max"]),
     ("args", [.node "BinOp" none [("left", [nameT "x"]), ("op", [.node "Add" none []]), ("right", [.node "Constant" none []])],
               .node "Constant" none []]),
     ("keywords", [])]])]
/-- `max(x, key=lambda: 0)` — the keyword position. -/
def demoBadKw : Tree :=
  .node "Expression" none [("body", [.node "Call" none
    [("func", [nameT "max"]), ("args", [nameT "x"]),
     ("keywords", [.node "keyword" none [("value", [.node "Lambda" none [("body", [.node "Constant" none []])]])]])]])]

example : demoPolicy.total demoGrammar = true := by decide
example : wellFormed demoGrammar demoGood = true ∧ accepts demoPolicy ["x"] demoGood = true := by decide
example : wellFormed demoGrammar demoBadKw = true ∧ confined ["x"] demoBadKw = false
    ∧ accepts demoPolicy ["x"] demoBadKw = false := by decide
/-- A policy that ignores `Call.keywords` is not total, and indeed accepts the escape. -/
def demoLeaky : Policy := { demoPolicy with rules := demoPolicy.rules.filter (fun r => r.1 != ("Call", "keywords")) }
example : demoLeaky.total demoGrammar = false ∧ accepts demoLeaky ["x"] demoBadKw = true := by decide

end SemantivaModel.SafeEval
