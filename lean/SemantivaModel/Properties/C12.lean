import SemantivaModel.Proofs.ExprSig
/-!
# C12 — equal expression signatures imply equal values; commuted forms agree

All theorems are for every expression of the fragment (any size), every environment, every
operator list `comm` satisfying the decidable side condition `commOpsOK` (only `+`/`*` are
flattened) and every sort key.  `Tie/C12.lean` instantiates `comm` with the list extracted from
the real code on this run.
-/
namespace SemantivaModel.ExprSig

/-! ## 1. The normal form has the same value (hence: equal signatures ⇒ equal values) -/

mutual
theorem norm_eval {comm : List BinOp} (hc : commOpsOK comm = true) (key : Expr → String) (ρ : Env) :
    ∀ e : Expr, eval ρ (norm comm key e) = eval ρ e
  | .var _ => by simp [norm]
  | .const _ => by simp [norm]
  | .bin op l r => by
    by_cases hop : comm.contains op = true
    · rw [norm_bin_comm hop]
      have hac := isAC_of_ok hc hop
      have hne : normTerms comm key op l ++ normTerms comm key op r ≠ [] := by
        intro h; exact normTerms_ne_nil comm key op l (List.append_eq_nil_iff.mp h).1
      rw [eval_rebuild_sort ρ key hac _ hne, List.map_append, agg_append hac,
        normTerms_eval hc key ρ op hac l, normTerms_eval hc key ρ op hac r]
      rfl
    · rw [norm_bin_noncomm hop]; simp only [eval]; rw [norm_eval hc key ρ l, norm_eval hc key ρ r]
  | .neg e => by simp only [norm, eval]; rw [norm_eval hc key ρ e]
  | .call1 f a => by cases f; simp only [norm, eval]; rw [norm_eval hc key ρ a]
  | .call2 f a b => by cases f <;> (simp only [norm, eval]; rw [norm_eval hc key ρ a, norm_eval hc key ρ b])
  | .cmp o l r => by simp only [norm, eval]; rw [norm_eval hc key ρ l, norm_eval hc key ρ r]
  | .ite c t e => by simp only [norm, eval]; rw [norm_eval hc key ρ c, norm_eval hc key ρ t, norm_eval hc key ρ e]

theorem normTerms_eval {comm : List BinOp} (hc : commOpsOK comm = true) (key : Expr → String) (ρ : Env)
    (op : BinOp) (hop : isAC op) :
    ∀ e : Expr, agg op ((normTerms comm key op e).map (eval ρ)) = eval ρ e
  | .bin op' l r => by
    by_cases heq : op' = op
    · subst heq
      rw [normTerms_bin_same, List.map_append, agg_append hop, normTerms_eval hc key ρ op' hop l,
        normTerms_eval hc key ρ op' hop r]
      rfl
    · rw [normTerms_bin_ne comm key heq]
      simp only [List.map_cons, List.map_nil, agg, List.foldr_cons, List.foldr_nil]
      rw [evalBin_unit hop]
      by_cases hop' : comm.contains op' = true
      · have hac := isAC_of_ok hc hop'
        have hne : normTerms comm key op' l ++ normTerms comm key op' r ≠ [] := by
          intro h; exact normTerms_ne_nil comm key op' l (List.append_eq_nil_iff.mp h).1
        rw [norm_bin_comm hop', eval_rebuild_sort ρ key hac _ hne, List.map_append, agg_append hac,
          normTerms_eval hc key ρ op' hac l, normTerms_eval hc key ρ op' hac r]
        rfl
      · rw [norm_bin_noncomm hop']; simp only [eval]; rw [norm_eval hc key ρ l, norm_eval hc key ρ r]
  | .var _ => by simp [normTerms, agg, evalBin_unit hop]
  | .const _ => by simp [normTerms, agg, evalBin_unit hop]
  | .neg e => by
    simp only [normTerms, List.map_cons, List.map_nil, agg, List.foldr_cons, List.foldr_nil]
    rw [evalBin_unit hop]; simp only [eval]; rw [norm_eval hc key ρ e]
  | .call1 f a => by
    simp only [normTerms, List.map_cons, List.map_nil, agg, List.foldr_cons, List.foldr_nil]
    rw [evalBin_unit hop]; cases f; simp only [eval]; rw [norm_eval hc key ρ a]
  | .call2 f a b => by
    simp only [normTerms, List.map_cons, List.map_nil, agg, List.foldr_cons, List.foldr_nil]
    rw [evalBin_unit hop]; cases f <;> (simp only [eval]; rw [norm_eval hc key ρ a, norm_eval hc key ρ b])
  | .cmp o l r => by
    simp only [normTerms, List.map_cons, List.map_nil, agg, List.foldr_cons, List.foldr_nil]
    rw [evalBin_unit hop]; simp only [eval]; rw [norm_eval hc key ρ l, norm_eval hc key ρ r]
  | .ite c t e => by
    simp only [normTerms, List.map_cons, List.map_nil, agg, List.foldr_cons, List.foldr_nil]
    rw [evalBin_unit hop]; simp only [eval]
    rw [norm_eval hc key ρ c, norm_eval hc key ρ t, norm_eval hc key ρ e]
end

/-- **C12 (soundness).** Normalisation never changes the value, for every assignment. -/
theorem norm_sound {comm : List BinOp} (hc : commOpsOK comm = true) (key : Expr → String) (ρ : Env) (e : Expr) :
    eval ρ (norm comm key e) = eval ρ e := norm_eval hc key ρ e

/-- **C12 (equal signatures ⇒ equal values), tree level.** -/
theorem normeq_implies_valeq {comm : List BinOp} (hc : commOpsOK comm = true) (key : Expr → String)
    (e₁ e₂ : Expr) (h : norm comm key e₁ = norm comm key e₂) (ρ : Env) : eval ρ e₁ = eval ρ e₂ := by
  rw [← norm_sound hc key ρ e₁, ← norm_sound hc key ρ e₂, h]

/-- String level, with the injectivity of the dump rendering as an explicit hypothesis
    (it is a property of `ast.dump`, outside the repository). -/
theorem sig_eq_implies_val_eq {comm : List BinOp} (hc : commOpsOK comm = true)
    (hinj : ∀ a b : Expr, dump a = dump b → a = b)
    (e₁ e₂ : Expr) (h : sig comm e₁ = sig comm e₂) (ρ : Env) : eval ρ e₁ = eval ρ e₂ :=
  normeq_implies_valeq hc dump e₁ e₂ (hinj _ _ h) ρ

/-! ## 2. Re-ordering / re-associating operands of commutative operators never changes the signature -/

/-- Equality up to commutativity and associativity of the operators in `comm`, anywhere in the tree. -/
inductive ACEquiv (comm : List BinOp) : Expr → Expr → Prop
  | refl (e) : ACEquiv comm e e
  | symm {a b} : ACEquiv comm a b → ACEquiv comm b a
  | trans {a b c} : ACEquiv comm a b → ACEquiv comm b c → ACEquiv comm a c
  | comm_ {op a b} : comm.contains op = true → ACEquiv comm (.bin op a b) (.bin op b a)
  | assoc {op a b c} : comm.contains op = true → ACEquiv comm (.bin op (.bin op a b) c) (.bin op a (.bin op b c))
  | bin {op l l' r r'} : ACEquiv comm l l' → ACEquiv comm r r' → ACEquiv comm (.bin op l r) (.bin op l' r')
  | neg {e e'} : ACEquiv comm e e' → ACEquiv comm (.neg e) (.neg e')
  | call1 {f a a'} : ACEquiv comm a a' → ACEquiv comm (.call1 f a) (.call1 f a')
  | call2 {f a a' b b'} : ACEquiv comm a a' → ACEquiv comm b b' → ACEquiv comm (.call2 f a b) (.call2 f a' b')
  | cmp {o l l' r r'} : ACEquiv comm l l' → ACEquiv comm r r' → ACEquiv comm (.cmp o l r) (.cmp o l' r')
  | ite {c c' t t' e e'} : ACEquiv comm c c' → ACEquiv comm t t' → ACEquiv comm e e' →
      ACEquiv comm (.ite c t e) (.ite c' t' e')

theorem norm_acEquiv {comm : List BinOp} {key : Expr → String} (hinj : ∀ a b, key a = key b → a = b)
    {e₁ e₂ : Expr} (h : ACEquiv comm e₁ e₂) :
    norm comm key e₁ = norm comm key e₂ ∧ ∀ op, (normTerms comm key op e₁).Perm (normTerms comm key op e₂) := by
  induction h with
  | refl e => exact ⟨rfl, fun _ => .refl _⟩
  | symm _ ih => exact ⟨ih.1.symm, fun op => (ih.2 op).symm⟩
  | trans _ _ ih₁ ih₂ => exact ⟨ih₁.1.trans ih₂.1, fun op => (ih₁.2 op).trans (ih₂.2 op)⟩
  | @comm_ op a b hop =>
    have hn : norm comm key (.bin op a b) = norm comm key (.bin op b a) := by
      rw [norm_bin_comm hop, norm_bin_comm hop, sortBy_eq_of_perm hinj List.perm_append_comm]
    refine ⟨hn, fun op₂ => ?_⟩
    by_cases h : op = op₂
    · subst h
      rw [normTerms_bin_same, normTerms_bin_same]
      exact List.perm_append_comm
    · rw [normTerms_bin_ne comm key h, normTerms_bin_ne comm key h, hn]
  | @assoc op a b c hop =>
    have hn : norm comm key (.bin op (.bin op a b) c) = norm comm key (.bin op a (.bin op b c)) := by
      rw [norm_bin_comm hop, norm_bin_comm hop, normTerms_bin_same, normTerms_bin_same, List.append_assoc]
    refine ⟨hn, fun op₂ => ?_⟩
    by_cases h : op = op₂
    · subst h
      rw [normTerms_bin_same, normTerms_bin_same, normTerms_bin_same, normTerms_bin_same, List.append_assoc]
    · rw [normTerms_bin_ne comm key h, normTerms_bin_ne comm key h, hn]
  | @bin op l l' r r' _ _ ihl ihr =>
    have hn : norm comm key (.bin op l r) = norm comm key (.bin op l' r') := by
      by_cases hop : comm.contains op = true
      · rw [norm_bin_comm hop, norm_bin_comm hop, sortBy_eq_of_perm hinj ((ihl.2 op).append (ihr.2 op))]
      · rw [norm_bin_noncomm hop, norm_bin_noncomm hop, ihl.1, ihr.1]
    refine ⟨hn, fun op₂ => ?_⟩
    by_cases h : op = op₂
    · subst h
      rw [normTerms_bin_same, normTerms_bin_same]
      exact (ihl.2 op).append (ihr.2 op)
    · rw [normTerms_bin_ne comm key h, normTerms_bin_ne comm key h, hn]
  | neg _ ih => exact ⟨by simp only [norm]; rw [ih.1], fun _ => by simp only [normTerms]; rw [ih.1]⟩
  | call1 _ ih => exact ⟨by simp only [norm]; rw [ih.1], fun _ => by simp only [normTerms]; rw [ih.1]⟩
  | call2 _ _ iha ihb =>
    exact ⟨by simp only [norm]; rw [iha.1, ihb.1], fun _ => by simp only [normTerms]; rw [iha.1, ihb.1]⟩
  | cmp _ _ ihl ihr =>
    exact ⟨by simp only [norm]; rw [ihl.1, ihr.1], fun _ => by simp only [normTerms]; rw [ihl.1, ihr.1]⟩
  | ite _ _ _ ihc iht ihe =>
    exact ⟨by simp only [norm]; rw [ihc.1, iht.1, ihe.1], fun _ => by simp only [normTerms]; rw [ihc.1, iht.1, ihe.1]⟩

/-- **C12 (commuted forms agree).** Any re-ordering or re-association of the operands of the
    commutative operators, at any depth, leaves the signature unchanged (given an injective key). -/
theorem sig_acEquiv {comm : List BinOp} (hinj : ∀ a b : Expr, dump a = dump b → a = b)
    {e₁ e₂ : Expr} (h : ACEquiv comm e₁ e₂) : sig comm e₁ = sig comm e₂ := by
  unfold sig; rw [(norm_acEquiv hinj h).1]

/-! ## 3. What must change the signature does -/

/-- Swapping the operands of an operator that is not flattened changes the normal form
    whenever the operands' normal forms differ. -/
theorem swap_noncomm_changes {comm : List BinOp} (key : Expr → String) {op : BinOp}
    (hop : comm.contains op = false) (a b : Expr) (hab : norm comm key a ≠ norm comm key b) :
    norm comm key (.bin op a b) ≠ norm comm key (.bin op b a) := by
  have hop' : ¬ comm.contains op = true := by rw [hop]; exact Bool.false_ne_true
  rw [norm_bin_noncomm hop', norm_bin_noncomm hop']
  intro h
  injection h with _ h₁ _
  exact hab h₁

/-- Normalisation only permutes leaves: the multiset of variables and constants is preserved. -/
theorem leaves_norm (comm : List BinOp) (key : Expr → String) :
    ∀ e : Expr, (leaves (norm comm key e)).Perm (leaves e) ∧
      ∀ op, ((normTerms comm key op e).flatMap leaves).Perm (leaves e) := by
  intro e
  induction e with
  | var x => exact ⟨by simp [norm], fun _ => by simp [normTerms, leaves]⟩
  | const n => exact ⟨by simp [norm], fun _ => by simp [normTerms, leaves]⟩
  | bin op l r ihl ihr =>
    have hne : normTerms comm key op l ++ normTerms comm key op r ≠ [] := by
      intro h; exact normTerms_ne_nil comm key op l (List.append_eq_nil_iff.mp h).1
    have hchain : (leaves (rebuild op (sortBy key (normTerms comm key op l ++ normTerms comm key op r)))).Perm
        (leaves l ++ leaves r) := by
      rw [leaves_rebuild op _ (sortBy_ne_nil key hne)]
      refine (flatMap_perm (sortBy_perm key _)).trans ?_
      rw [List.flatMap_append]
      exact (ihl.2 op).append (ihr.2 op)
    have hn : (leaves (norm comm key (.bin op l r))).Perm (leaves (.bin op l r)) := by
      by_cases hop : comm.contains op = true
      · rw [norm_bin_comm hop]; exact hchain
      · rw [norm_bin_noncomm hop]; simp only [leaves]; exact ihl.1.append ihr.1
    refine ⟨hn, fun op₂ => ?_⟩
    by_cases h : op = op₂
    · subst h
      rw [normTerms_bin_same, List.flatMap_append]
      exact (ihl.2 op).append (ihr.2 op)
    · rw [normTerms_bin_ne comm key h]; simpa using hn
  | neg e ih => exact ⟨by simpa [norm, leaves] using ih.1, fun _ => by simpa [normTerms, leaves] using ih.1⟩
  | call1 f a ih => exact ⟨by simpa [norm, leaves] using ih.1, fun _ => by simpa [normTerms, leaves] using ih.1⟩
  | call2 f a b iha ihb =>
    exact ⟨by simpa [norm, leaves] using iha.1.append ihb.1, fun _ => by simpa [normTerms, leaves] using iha.1.append ihb.1⟩
  | cmp o l r ihl ihr =>
    exact ⟨by simpa [norm, leaves] using ihl.1.append ihr.1, fun _ => by simpa [normTerms, leaves] using ihl.1.append ihr.1⟩
  | ite c t e ihc iht ihe =>
    exact ⟨by simpa [norm, leaves] using (ihc.1.append iht.1).append ihe.1,
           fun _ => by simpa [normTerms, leaves] using (ihc.1.append iht.1).append ihe.1⟩

/-- **C12 (changing a constant or a variable changes the signature).** If two expressions have
    different multisets of leaves, their normal forms differ. -/
theorem leaf_change_changes (comm : List BinOp) (key : Expr → String) (e₁ e₂ : Expr)
    (h : ¬ (leaves e₁).Perm (leaves e₂)) : norm comm key e₁ ≠ norm comm key e₂ := by
  intro heq
  apply h
  exact ((leaves_norm comm key e₁).1.symm.trans (heq ▸ .refl _)).trans (leaves_norm comm key e₂).1

/-! ## 4. Non-vacuity and the witness that the side condition matters -/

def envAB : Env := fun x => if x = "a" then some 0 else if x = "b" then some 1 else none

example : commOpsOK [.add, .mul] = true := by decide
/-- `2 * (t + 5)` and `(5 + t) * 2` have one normal form. -/
example : norm [.add, .mul] dump (.bin .mul (.const 2) (.bin .add (.var "t") (.const 5)))
        = norm [.add, .mul] dump (.bin .mul (.bin .add (.const 5) (.var "t")) (.const 2)) := by decide +kernel
example : ACEquiv [.add, .mul] (.bin .mul (.const 2) (.bin .add (.var "t") (.const 5)))
                               (.bin .mul (.bin .add (.const 5) (.var "t")) (.const 2)) :=
  .trans (.comm_ (by decide)) (.bin (.comm_ (by decide)) (.refl _))
/-- Were `-` flattened like `+`, normalisation would change values: `b - a` ↦ `a - b`. -/
example : commOpsOK [.add, .sub] = false
    ∧ eval envAB (norm [.add, .sub] dump (.bin .sub (.var "b") (.var "a"))) ≠ eval envAB (.bin .sub (.var "b") (.var "a")) := by
  decide +kernel

end SemantivaModel.ExprSig
