import SemantivaModel.Model.SafeEval
import SemantivaModel.Proofs.SafeEval
