import SemantivaModel.Driver.C01
import SemantivaModel.Driver.C02
import SemantivaModel.Driver.C03
import SemantivaModel.Driver.C04
import SemantivaModel.Driver.C06
import SemantivaModel.Driver.C07
import SemantivaModel.Driver.C08
import SemantivaModel.Driver.C09
import SemantivaModel.Driver.C11
import SemantivaModel.Driver.C12
import SemantivaModel.Driver.C13
import SemantivaModel.Driver.C14
import SemantivaModel.Driver.C15
import SemantivaModel.Driver.C16
import SemantivaModel.Driver.C17
import SemantivaModel.Driver.C18
/-!
`modeldriver`: one JSON object per line in, one per line out.
`{"m": "<model>.<op>", "id": <any>, ...}` → `{"id": <same>, "ok": ...}` or `{"id":…, "err": "..."}`.
-/
open Lean SemantivaModel.Driver

structure DState where
  c01 : C01.State := {}
  c11 : C11.State := {}
  c12 : C12.State := {}
  c13 : C13.State := {}

def dispatch (st : DState) (j : Json) : Except String (DState × Json) := do
  let m ← strField j "m"
  if m.startsWith "c11." then
    let (s, r) ← C11.handle st.c11 m j
    pure ({ st with c11 := s }, r)
  else if m.startsWith "c12." then
    let (s, r) ← C12.handle st.c12 m j
    pure ({ st with c12 := s }, r)
  else if m.startsWith "c13." then
    let (s, r) ← C13.handle st.c13 m j
    pure ({ st with c13 := s }, r)
  else if m.startsWith "c08." then
    pure (st, ← C08.handle m j)
  else if m.startsWith "c14." then
    pure (st, ← C14.handle m j)
  else if m.startsWith "c01." then
    let (s, r) ← C01.handle st.c01 m j
    pure ({ st with c01 := s }, r)
  else if m.startsWith "c03." then
    pure (st, ← C03.handle st.c01 m j)
  else if m.startsWith "c02." then
    pure (st, ← C02.handle m j)
  else if m.startsWith "c04." then
    pure (st, ← C04.handle m j)
  else if m.startsWith "c06." then
    pure (st, ← C06.handle m j)
  else if m.startsWith "c15." then
    pure (st, ← C15.handle m j)
  else if m.startsWith "c16." then
    pure (st, ← C16.handle m j)
  else if m.startsWith "c18." then
    pure (st, ← C18.handle m j)
  else if m.startsWith "c17." then
    pure (st, ← C17.handle m j)
  else if m.startsWith "c09." then
    pure (st, ← C09.handle m j)
  else if m.startsWith "c07." then
    pure (st, ← C07.handle m j)
  else throw s!"unknown model op {m}"

partial def loop (h : IO.FS.Stream) (out : IO.FS.Stream) (st : DState) : IO Unit := do
  let line ← h.getLine
  if line.isEmpty then return ()
  let line := line.trimAscii.toString
  if line.isEmpty then loop h out st else
  match Json.parse line with
  | .error e =>
    out.putStrLn (Json.compress (Json.mkObj [("err", Json.str s!"parse: {e}")]))
    loop h out st
  | .ok j =>
    let id := (j.getObjVal? "id").toOption.getD Json.null
    match dispatch st j with
    | .ok (st', r) =>
      out.putStrLn (Json.compress (Json.mkObj [("id", id), ("ok", r)]))
      loop h out st'
    | .error e =>
      out.putStrLn (Json.compress (Json.mkObj [("id", id), ("err", Json.str e)]))
      loop h out st

def main : IO Unit := do
  let out ← IO.getStdout
  loop (← IO.getStdin) out {}
  out.flush
